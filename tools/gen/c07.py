"""C07: facts about the request-parsing surface, collected from the live classes / the AST.

* RequestSurface - every public name of a live `Request` object with its descriptor kind, every public
  function of werkzeug.http / sansio.http / sansio.utils, the `from_header` classes, the Accept and
  cache-control classes. Props/C07 carries a `decide` obligation "every row is in the covered list
  or in the explicit exclusion list": a newly added property shows up as an uncovered row.
* RequestGlue - the dispatch of `FormDataParser.parse` (mimetype constants, the caught exception
  classes), every `.decode(` / `.encode(` call site of formparser.py and wrappers/request.py with its
  argument text, the keyword arguments of the `parse_qsl` call, `get_part_charset`'s safe list, and
  the subclass relation (ValueError / HTTPException) of the exception vocabulary of the model.
* Regexes - every compiled module-level regex reachable from the request parsers with two structural
  flags (unbounded repeat inside an unbounded repeat; alternation inside an unbounded repeat).
* DateExc - the exception classes `email.utils.parsedate_to_datetime` raises over a boundary family
  of date-shaped texts, and the classes `parse_date` catches.
"""
import ast
import importlib
import inspect
import io
import os
import re

from extract_lib import REPO, generator, lean_bool, lean_list, write

SRC = os.path.join(REPO, "src", "werkzeug")


def lean_str(s: str) -> str:
    """Lean string literal (extract_lib.lean_str writes `\\u{..}`, which Lean 4 does not read:
    control and non-ASCII characters are written `\\xHH` / `\\uHHHH` here)"""
    out = []
    for ch in s:
        o = ord(ch)
        if ch == '"':
            out.append('\\"')
        elif ch == "\\":
            out.append("\\\\")
        elif 32 <= o < 127:
            out.append(ch)
        elif o < 256:
            out.append("\\x%02x" % o)
        elif o < 0x10000:
            out.append("\\u%04x" % o)
        else:
            out.append("?")
    return '"' + "".join(out) + '"'


def strs(ss, per_line=6):
    return lean_list([lean_str(s) for s in ss], per_line)


def rows(rs, per_line=2):
    return lean_list(["(" + ", ".join(x if isinstance(x, str) and x in ("true", "false") else lean_str(x) for x in r) + ")" for r in rs], per_line)


def _func_node(path, qual):
    tree = ast.parse(open(path).read())
    nodes = tree.body
    node = None
    for p in qual.split("."):
        # the last definition wins (typing overload stubs come first)
        node = [n for n in nodes if isinstance(n, (ast.FunctionDef, ast.ClassDef)) and n.name == p][-1]
        nodes = node.body
    return node


def _qualified_functions(tree):
    """(qualname, node) for every function / method of a module"""
    out = []

    def walk(nodes, prefix):
        for n in nodes:
            if isinstance(n, ast.ClassDef):
                walk(n.body, prefix + n.name + ".")
            elif isinstance(n, (ast.FunctionDef, ast.AsyncFunctionDef)):
                out.append((prefix + n.name, n))

    walk(tree.body, "")
    return out


BENIGN_ENV = {
    "REQUEST_METHOD": "POST", "wsgi.url_scheme": "http", "SERVER_NAME": "localhost", "SERVER_PORT": "8080", "SCRIPT_NAME": "/app", "PATH_INFO": "/p",
    "QUERY_STRING": "a=1", "SERVER_PROTOCOL": "HTTP/1.1", "REMOTE_ADDR": "127.0.0.1", "CONTENT_TYPE": "text/plain", "CONTENT_LENGTH": "0",
    "wsgi.version": (1, 0), "wsgi.multithread": False, "wsgi.multiprocess": False, "wsgi.run_once": False,
}


@generator("RequestSurface")
def gen_surface():
    wrappers = importlib.import_module("werkzeug.wrappers")
    ds = importlib.import_module("werkzeug.datastructures")
    env = dict(BENIGN_ENV)
    env["wsgi.input"] = io.BytesIO(b"")
    env["wsgi.errors"] = io.StringIO()
    req = wrappers.Request(env)
    attrs = []
    for n in sorted(set(dir(req))):
        if n.startswith("_"):
            continue
        try:
            p = inspect.getattr_static(wrappers.Request, n)
            kind = type(p).__name__
            if kind in ("header_property", "environ_property"):
                kind += ":" + ("raw" if p.load_func is None else getattr(p.load_func, "__name__", "func"))
            elif kind == "function":
                kind = "method"
            elif kind not in ("cached_property", "property", "classmethod", "staticmethod"):
                kind = "classattr"
        except AttributeError:
            kind = "instance"
        attrs.append((n, kind))

    funcs = []
    for modname in ("werkzeug.http", "werkzeug.sansio.http", "werkzeug.sansio.utils"):
        m = importlib.import_module(modname)
        for n in sorted(vars(m)):
            f = getattr(m, n)
            if not n.startswith("_") and inspect.isfunction(f) and f.__module__ == modname:
                funcs.append((modname, n))
    from_header = sorted(n for n in dir(ds) if inspect.isclass(getattr(ds, n)) and hasattr(getattr(ds, n), "from_header"))
    accept = sorted(n for n in dir(ds) if inspect.isclass(getattr(ds, n)) and issubclass(getattr(ds, n), ds.Accept))
    cc_mod = importlib.import_module("werkzeug.datastructures.cache_control")
    cc = sorted(n for n in dir(ds) if inspect.isclass(getattr(ds, n)) and issubclass(getattr(ds, n), cc_mod._CacheControl))
    body = f"""namespace Wz.Gen.RequestSurface

/-- every public name of a live `wrappers.Request` object: (name, kind). Kinds: `cached_property`,
`property`, `header_property:<load_func>` / `environ_property:<load_func>` (`raw` = no load function),
`method`, `classmethod`, `classattr` (configuration), `instance` (set by `__init__`). -/
def requestAttrs : List (String × String) := {rows(attrs, 3)}

/-- every public function defined in werkzeug.http, werkzeug.sansio.http, werkzeug.sansio.utils -/
def httpFunctions : List (String × String) := {rows(funcs, 3)}

/-- datastructures classes with a `from_header` classmethod -/
def fromHeaderClasses : List String := {strs(from_header)}
/-- `Accept` and its subclasses (what `parse_accept_header(value, cls)` may build) -/
def acceptClasses : List String := {strs(accept)}
/-- cache-control classes (what `parse_cache_control_header(value, cls=...)` may build) -/
def cacheControlClasses : List String := {strs(cc)}

end Wz.Gen.RequestSurface
"""
    return write("RequestSurface", body, "src/werkzeug/wrappers/request.py, sansio/request.py, http.py, sansio/http.py, sansio/utils.py, datastructures/")


EXC_VOCAB = [
    "ValueError", "UnicodeError", "UnicodeDecodeError", "UnicodeEncodeError", "binascii.Error", "json.JSONDecodeError", "LookupError", "KeyError", "IndexError",
    "TypeError", "OverflowError", "RecursionError", "AttributeError", "UnboundLocalError", "RuntimeError", "AssertionError",
    "werkzeug.exceptions.RequestEntityTooLarge", "werkzeug.exceptions.ClientDisconnected", "werkzeug.exceptions.BadRequest", "werkzeug.exceptions.UnsupportedMediaType",
    "werkzeug.exceptions.SecurityError", "werkzeug.exceptions.BadRequestKeyError",
]


def _exc_class(name):
    import builtins

    if "." not in name:
        return getattr(builtins, name)
    mod, _, attr = name.rpartition(".")
    return getattr(importlib.import_module(mod), attr)


@generator("RequestGlue")
def gen_formglue():
    exceptions = importlib.import_module("werkzeug.exceptions")
    fp_path = os.path.join(SRC, "formparser.py")
    rq_path = os.path.join(SRC, "wrappers", "request.py")
    parse = _func_node(fp_path, "FormDataParser.parse")
    mimetypes = []
    for node in ast.walk(parse):
        if isinstance(node, ast.Compare) and isinstance(node.left, ast.Name) and node.left.id == "mimetype":
            for c in node.comparators:
                if isinstance(c, ast.Constant) and isinstance(c.value, str):
                    mimetypes.append(c.value)
                elif isinstance(c, (ast.Tuple, ast.Set, ast.List)):
                    mimetypes += [e.value for e in c.elts if isinstance(e, ast.Constant)]
                else:
                    mimetypes.append("<" + ast.unparse(c) + ">")
    caught = []
    for node in ast.walk(parse):
        if isinstance(node, ast.ExceptHandler):
            caught.append("<bare>" if node.type is None else ast.unparse(node.type))
    sites = []
    for path, label in ((fp_path, "formparser"), (rq_path, "wrappers.request")):
        tree = ast.parse(open(path).read())
        for qual, fn in _qualified_functions(tree):
            for node in ast.walk(fn):
                if isinstance(node, ast.Call) and isinstance(node.func, ast.Attribute) and node.func.attr in ("decode", "encode"):
                    args = ", ".join([ast.unparse(a) for a in node.args] + [f"{k.arg}={ast.unparse(k.value)}" for k in node.keywords])
                    sites.append((label + ":" + qual, node.func.attr, args))
    sites.sort()
    qsl = []
    for node in ast.walk(_func_node(fp_path, "FormDataParser._parse_urlencoded")):
        if isinstance(node, ast.Call) and isinstance(node.func, ast.Name) and node.func.id == "parse_qsl":
            qsl.append(("<positional>", ", ".join(ast.unparse(a) for a in node.args)))
            qsl += [(k.arg or "**", ast.unparse(k.value)) for k in node.keywords]
    charsets = []
    for node in ast.walk(_func_node(fp_path, "MultiPartParser.get_part_charset")):
        if isinstance(node, ast.Set):
            charsets.append(sorted(e.value if isinstance(e, ast.Constant) else "<" + ast.unparse(e) + ">" for e in node.elts))
    returns = sorted({ast.unparse(n.value) for n in ast.walk(_func_node(fp_path, "MultiPartParser.get_part_charset")) if isinstance(n, ast.Return) and n.value is not None})
    json_caught = []
    for node in ast.walk(_func_node(rq_path, "Request.get_json")):
        if isinstance(node, ast.ExceptHandler):
            json_caught.append("<bare>" if node.type is None else ast.unparse(node.type))
    exc_rows = []
    for name in EXC_VOCAB:
        cls = _exc_class(name)
        exc_rows.append((name.rpartition(".")[2] if name.startswith("werkzeug.") else name, lean_bool(issubclass(cls, ValueError)), lean_bool(issubclass(cls, exceptions.HTTPException))))
    body = f"""namespace Wz.Gen.RequestGlue

/-- the string constants `FormDataParser.parse` compares `mimetype` with, in source order -/
def parseMimetypes : List String := {strs(mimetypes, 2)}
/-- the exception classes of the `try: parse_func(...) except ...:` in `FormDataParser.parse` -/
def parseCaught : List String := {strs(caught)}
/-- every `.decode(...)` / `.encode(...)` call of formparser.py and wrappers/request.py:
(module:function, method, argument text) -/
def codecSites : List (String × String × String) := {rows(sites, 1)}
/-- the arguments of the `parse_qsl(...)` call in `_parse_urlencoded` -/
def parseQslArgs : List (String × String) := {rows(qsl, 2)}
/-- the set display(s) in `MultiPartParser.get_part_charset` and its `return` expressions -/
def partCharsets : List (List String) := {lean_list([strs(c) for c in charsets], 1)}
def partCharsetReturns : List String := {strs(returns)}
/-- the exception classes `Request.get_json` catches around `json_module.loads` -/
def jsonCaught : List String := {strs(json_caught)}
/-- the exception vocabulary of the model: (class, issubclass(cls, ValueError), issubclass(cls, HTTPException)),
evaluated on the live classes -/
def excTable : List (String × Bool × Bool) := {rows(exc_rows, 2)}

end Wz.Gen.RequestGlue
"""
    return write("RequestGlue", body, "src/werkzeug/formparser.py, wrappers/request.py, exceptions.py")


REGEX_MODULES = [
    "werkzeug.http", "werkzeug.sansio.http", "werkzeug.sansio.request", "werkzeug.sansio.utils", "werkzeug.sansio.multipart", "werkzeug.wrappers.request",
    "werkzeug.datastructures.auth", "werkzeug.datastructures.accept", "werkzeug.datastructures.structures", "werkzeug.datastructures.headers",
    "werkzeug.datastructures.etag", "werkzeug.datastructures.range", "werkzeug.datastructures.cache_control", "werkzeug.datastructures.csp",
    "werkzeug.urls", "werkzeug._internal", "werkzeug.formparser", "werkzeug.user_agent", "werkzeug.wsgi", "werkzeug.utils",
]


def regex_flags(pattern, flags):
    """(unbounded repeat nested in an unbounded repeat, alternation inside an unbounded repeat)"""
    import re._constants as sc
    import re._parser as sp

    tree = sp.parse(pattern, flags)
    res = {"nested": False, "branch": False}

    def walk(items, inrep):
        for op, av in items:
            if op in (sc.MAX_REPEAT, sc.MIN_REPEAT, sc.POSSESSIVE_REPEAT):
                _, hi, sub = av
                unb = hi == sc.MAXREPEAT
                if unb and inrep:
                    res["nested"] = True
                walk(sub, inrep or unb)
            elif op is sc.SUBPATTERN:
                walk(av[3], inrep)
            elif op is sc.BRANCH:
                if inrep:
                    res["branch"] = True
                for b in av[1]:
                    walk(b, inrep)
            elif op is sc.ATOMIC_GROUP:
                walk(av, inrep)
            elif op in (sc.ASSERT, sc.ASSERT_NOT):
                walk(av[1], inrep)
            elif op is sc.GROUPREF_EXISTS:
                for b in av[1:]:
                    if b:
                        walk(b, inrep)

    walk(tree, False)
    return res["nested"], res["branch"]


def live_regexes():
    out = []
    for modname in REGEX_MODULES:
        m = importlib.import_module(modname)
        for n in sorted(vars(m)):
            v = getattr(m, n)
            if isinstance(v, re.Pattern):
                out.append((modname, n, v))
    return out


@generator("Regexes")
def gen_regexes():
    table = []
    for modname, n, v in live_regexes():
        pat = v.pattern if isinstance(v.pattern, str) else v.pattern.decode("latin-1")
        nested, branch = regex_flags(v.pattern, v.flags & ~re.UNICODE if isinstance(v.pattern, bytes) else v.flags)
        table.append((modname, n, pat, lean_bool(nested), lean_bool(branch)))
    # regexes compiled inside functions (per call) are not module attributes: count them per file
    local = []
    for modname in REGEX_MODULES:
        path = os.path.join(SRC, *modname.split(".")[1:]) + ".py"
        tree = ast.parse(open(path).read())
        for qual, fn in _qualified_functions(tree):
            for node in ast.walk(fn):
                if isinstance(node, ast.Call) and isinstance(node.func, ast.Attribute) and isinstance(node.func.value, ast.Name) and node.func.value.id == "re" \
                        and node.func.attr in ("compile", "match", "search", "fullmatch", "sub", "subn", "split", "findall", "finditer"):
                    local.append((modname + ":" + qual, "re." + node.func.attr))
    local.sort()
    body = f"""namespace Wz.Gen.Regexes

/-- every module-level compiled regex of the request-parsing modules (live objects):
(module, name, pattern, an unbounded repeat nested inside an unbounded repeat, an alternation inside
an unbounded repeat). The two flags are where super-linear backtracking can come from. -/
def table : List (String × String × String × Bool × Bool) := {rows(table, 1)}

/-- `re.<function>(...)` calls inside functions of those modules (patterns built per call) -/
def localUses : List (String × String) := {rows(local, 2)}

end Wz.Gen.Regexes
"""
    return write("Regexes", body, "src/werkzeug/{http,sansio/*,wrappers/request,datastructures/*,urls,_internal,formparser,user_agent,wsgi,utils}.py")


DATE_DAY = ["31", "30", "29", "1", "00", "32", "99999999999999999999"]
DATE_MONTH = ["Dec", "Feb", "Apr", "13", "Foo"]
DATE_YEAR = ["0001", "9999", "1", "99", "69", "0", "100", "2026", "10000", "99999999999999999999"]
DATE_TIME = ["23:59:59", "24:00:00", "23:60:00", "23:59:60", "12:00", "0:0:0", "99999999999999999999999:0:0", "12.00.00", ""]
DATE_ZONE = ["+0100", "-1400", "+2359", "-2359", "GMT", "EST", "Z", "", "+2400", "+9999", "+99999999999999999999", "-1", "(x"]
DATE_OTHER = ["", "0", "a", "(", "(" * 50, "1 Jan", "Jan", "\xe9", "Thu, 01 Jan 2026 00:00:00 GMT", "Thursday, 01-Jan-26 00:00:00 GMT", "Thu Jan  1 00:00:00 2026", "1 Jan 2026 0:0 +2500",
              "31 Feb 2026 00:00:00 GMT", '"', "W/", ",", ";", "=", "1 Jan 26 0:0", "Mon, 01 Jan 0001 00:00:00 +0100", "Fri, 31 Dec 9999 23:59:59 -0100", "\x00", "1 1 1", "1 Jan 1 1"]


def date_family():
    fam = list(DATE_OTHER)
    for d in DATE_DAY:
        for mo in DATE_MONTH:
            for y in DATE_YEAR:
                for t in DATE_TIME:
                    for z in DATE_ZONE:
                        fam.append(" ".join(x for x in (d, mo, y, t, z) if x))
    return fam


@generator("DateExc")
def gen_dateexc():
    import email.utils

    http_path = os.path.join(SRC, "http.py")
    caught = []
    for node in ast.walk(_func_node(http_path, "parse_date")):
        if isinstance(node, ast.ExceptHandler):
            if node.type is None:
                caught.append("<bare>")
            elif isinstance(node.type, ast.Tuple):
                caught += [ast.unparse(e) for e in node.type.elts]
            else:
                caught.append(ast.unparse(node.type))
    seen = {}
    n = 0
    for s in date_family():
        n += 1
        try:
            email.utils.parsedate_to_datetime(s)
        except Exception as e:  # noqa: BLE001 - the class is the observation
            name = type(e).__name__
            if name not in seen:
                seen[name] = s
    body = f"""namespace Wz.Gen.DateExc

/-- the exception classes `parse_date` catches around `email.utils.parsedate_to_datetime` -/
def parseDateCaught : List String := {strs(caught)}
/-- the exception classes `email.utils.parsedate_to_datetime` raised over the boundary family
({n} date-shaped texts: day x month x year x time x zone at and beyond the ends of their ranges),
each with the first text that raised it -/
def raised : List (String × String) := {rows(sorted(seen.items()), 1)}
def familySize : Nat := {n}

end Wz.Gen.DateExc
"""
    return write("DateExc", body, "src/werkzeug/http.py (parse_date) and CPython email.utils")
