"""C20: the debugger's dispatch / gate table, obtained by driving the real DebuggedApplication.

Also used by harness/c20.py (imported by path) so that the generated table and the oracle-only
`gates` stream observe the application in exactly the same way.
"""
import json
import time
from unittest import mock

from extract_lib import generator, lean_bool, lean_list, write

PIN = "123-456-789"

# command dimension: how the request addresses the debugger
CMDS = ["eval", "console", "pinauth-right", "pinauth-wrong", "printpin", "resource", "nocmd", "plain"]
SECRETS = ["right", "wrong", "absent"]
# Host header values with the class the *property text* assigns them (independent of the code):
# T = must be accepted-able (listed name / true subdomain), U = must never be accepted,
# E = either verdict is accepted (letter-case variants)
HOSTS = [
    ("localhost", "T"),
    ("sub.localhost", "T"),
    ("127.0.0.1", "T"),
    ("localhost:5000", "T"),
    ("a.b.localhost:80", "T"),
    ("xn--bcher-kva.localhost", "T"),
    ("bücher.localhost", "T"),
    ("evillocalhost", "U"),
    ("localhost.evil.com", "U"),
    ("example.com", "U"),
    (None, "U"),
    ("", "U"),
    ("127.0.0.1.evil.com", "U"),
    ("bücher.example", "U"),
    ("[::1]", "U"),
    ("[::1]:5000", "U"),
    ("a..localhost", "U"),
    (".localhost", "U"),
    ("a" * 64 + ".localhost", "U"),
    ("LOCALHOST", "E"),
    ("Sub.LocalHost:80", "E"),
]
COOKIES = ["valid", "expired", "wronghash", "malformed", "absent"]
FRAMES = ["known", "unknown"]
BOOLS = [True, False]

DIMS = [len(CMDS), len(SECRETS), len(HOSTS), len(COOKIES), len(FRAMES), 2, 2]

FRAME_ID = 4242
OUT_APP, OUT_RES200, OUT_RES404, OUT_SECERR, OUT_EVAL, OUT_CONSOLE, OUT_PRINTPIN_LOGGED, OUT_PRINTPIN_SILENT, OUT_PINAUTH = 0, 1, 2, 3, 4, 5, 6, 7, 8
OUT_ODD = 99


class SpyFrame:
    def __init__(self):
        self.calls = []
        self.id = FRAME_ID

    def eval(self, code):
        self.calls.append(code)
        return "spy-result"


class Rig:
    """one DebuggedApplication with a spy frame, a counting inner app and captured log"""

    def __init__(self, evalex, pin_on, trusted_hosts=None):
        from werkzeug.debug import DebuggedApplication

        self.inner_calls = 0

        def inner(environ, start_response):
            self.inner_calls += 1
            start_response("200 OK", [("Content-Type", "text/plain")])
            return [b"inner"]

        self.app = DebuggedApplication(inner, evalex=evalex, pin_security=pin_on, pin_logging=True)
        self.cookie_name = self.app.pin_cookie_name  # computes the machine pin once ...
        # ... which is then replaced by a fixed one (or switched off again: reading
        # pin_cookie_name recomputes and stores the machine pin)
        self.app.pin = PIN if pin_on else None
        if trusted_hosts is not None:
            self.app.trusted_hosts = list(trusted_hosts)
        self.spy = SpyFrame()
        self.app.frames[FRAME_ID] = self.spy
        self.pin_on = pin_on
        self.logs = []
        self.clock = None  # a fixed value for time.time() during requests (None: the real clock)

    def cookie_value(self, kind):
        from werkzeug.debug import PIN_TIME, hash_pin

        now = int(time.time()) if self.clock is None else int(self.clock)
        if kind == "edge-valid":  # the oldest timestamp that is still inside PIN_TIME
            return f"{now - PIN_TIME + 1}|{hash_pin(PIN)}"
        if kind == "edge-expired":  # one second older
            return f"{now - PIN_TIME}|{hash_pin(PIN)}"
        if kind == "badts":
            return f"abc|{hash_pin(PIN)}"
        if kind == "empty":
            return ""
        if kind == "valid":
            return f"{now}|{hash_pin(PIN)}"
        if kind == "expired":
            return f"{now - PIN_TIME - 100}|{hash_pin(PIN)}"
        if kind == "wronghash":
            return f"{now}|{hash_pin('000-000-000')}"
        if kind == "malformed":
            return "not-a-cookie"
        return None

    def request(self, path, query, host, cookie_kind, cookie_raw=None, patch=True, method="GET"):
        """returns dict(status, body, eval_calls, inner_ran, logs, set_cookie); `cookie_raw` = a cookie
        value to present as is (one the server issued earlier), overriding `cookie_kind`.
        `patch=False`: time.sleep / _log are left as the caller arranged them (concurrent use: the
        per-request patching of module attributes is not thread-safe)"""
        from werkzeug import debug as debug_mod
        from werkzeug.test import create_environ

        environ = create_environ(path, query_string=query, method=method)
        if host is None:
            environ.pop("HTTP_HOST", None)
        else:
            environ["HTTP_HOST"] = host
        cv = cookie_raw if cookie_raw is not None else self.cookie_value(cookie_kind)
        if cv is not None:
            environ["HTTP_COOKIE"] = f"{self.cookie_name}={cv}"
        seen = {}

        def start_response(status, headers, exc_info=None):
            seen["status"] = int(status.split()[0])
            seen["headers"] = headers
            return lambda data: None

        before_eval, before_inner = len(self.spy.calls), self.inner_calls
        logs = []

        def run():
            it = self.app(environ, start_response)
            try:
                return b"".join(it)
            finally:
                if hasattr(it, "close"):
                    it.close()

        if patch and self.clock is not None:
            clock = self.clock
            with mock.patch.object(time, "sleep", lambda s: None), mock.patch.object(time, "time", lambda: clock), \
                    mock.patch.object(debug_mod, "_log", lambda *a, **k: logs.append(a)):
                body = run()
        elif patch:
            with mock.patch.object(time, "sleep", lambda s: None), mock.patch.object(debug_mod, "_log", lambda *a, **k: logs.append(a)):
                body = run()
        else:
            body = run()
        return {
            "status": seen.get("status"),
            "body": body,
            "eval_calls": self.spy.calls[before_eval:],
            "inner_ran": self.inner_calls > before_inner,
            "logs": logs,
            "set_cookie": [v for k, v in seen.get("headers", []) if k.lower() == "set-cookie"],
        }

    def issued_cookie(self, res):
        """the PIN cookie value a response set (None when it set none or deleted it)"""
        from http.cookies import SimpleCookie

        for raw in res["set_cookie"]:
            c = SimpleCookie()
            c.load(raw)
            if self.cookie_name in c and c[self.cookie_name].value and "|" in c[self.cookie_name].value:
                return c[self.cookie_name].value
        return None

    def build_query(self, cmd, secret, frame, extra=None):
        q = {}
        sec = {"right": self.app.secret, "wrong": "not-the-secret", "absent": None, "upper": self.app.secret.swapcase(),
               "prefix": self.app.secret[:-1], "empty": ""}[secret]
        frm = {"known": FRAME_ID, "unknown": 777, "missing": None, "nonint": "4242x"}[frame]
        path = "/"
        if cmd == "console":
            path = "/console"
        elif cmd == "plain":
            pass
        else:
            q["__debugger__"] = "yes"
            if frm is not None:
                q["frm"] = str(frm)
            if cmd == "eval":
                q["cmd"] = "1+1"
            elif cmd == "pinauth-right":
                q["cmd"], q["pin"] = "pinauth", PIN
            elif cmd == "pinauth-wrong":
                q["cmd"], q["pin"] = "pinauth", "999-999-999"
            elif cmd == "printpin":
                q["cmd"] = "printpin"
            elif cmd == "resource":
                q["cmd"], q["f"] = "resource", "style.css"
            elif cmd == "nocmd":
                pass
        if sec is not None and cmd not in ("plain", "console"):
            q["s"] = sec
        if extra:
            q.update(extra)
        return path, q


def classify(res):
    """observed outcome code of one request"""
    marks = []
    if res["eval_calls"]:
        marks.append(OUT_EVAL)
    if res["inner_ran"]:
        marks.append(OUT_APP)
    body, status = res["body"], res["status"]
    if status == 400:
        marks.append(OUT_SECERR)
    elif status == 200 and body.startswith(b'{"auth"'):
        j = json.loads(body)
        marks.append(OUT_PINAUTH + 2 * int(bool(j["auth"])) + int(bool(j["exhausted"])))
    elif status == 200 and b"CONSOLE_MODE = true" in body:
        marks.append(OUT_CONSOLE)
    elif status == 200 and body == b"" and not res["inner_ran"] and not res["eval_calls"]:
        marks.append(OUT_PRINTPIN_LOGGED if res["logs"] else OUT_PRINTPIN_SILENT)
    elif status == 200 and b"spy-result" not in body and not res["inner_ran"]:
        marks.append(OUT_RES200)
    elif status == 404:
        marks.append(OUT_RES404)
    if len(marks) != 1:
        return OUT_ODD
    return marks[0]


def observe(cmd, secret, host, cookie, frame, evalex, pin_on):
    rig = Rig(evalex, pin_on)
    path, q = rig.build_query(cmd, secret, frame)
    try:
        return classify(rig.request(path, q, host, cookie))
    except Exception:  # an escaping exception is "any other failure": recorded, not fatal for the table
        return OUT_ODD


def pin_auth_structure():
    """facts read off the AST of DebuggedApplication._fail_pin_auth / pin_auth (no execution):
    where the failure is counted relative to the penalty delay and the lock, and how the gate reads
    the counter. Unknown shapes give False / 0, which breaks the obligation."""
    import ast
    import os

    from extract_lib import REPO

    src = open(os.path.join(REPO, "src", "werkzeug", "debug", "__init__.py")).read()
    tree = ast.parse(src)
    cls = next(n for n in tree.body if isinstance(n, ast.ClassDef) and n.name == "DebuggedApplication")
    fn = {n.name: n for n in cls.body if isinstance(n, ast.FunctionDef)}

    def is_counter_value(e):  # self._failed_pin_auth.value
        return (isinstance(e, ast.Attribute) and e.attr == "value" and isinstance(e.value, ast.Attribute)
                and e.value.attr == "_failed_pin_auth" and isinstance(e.value.value, ast.Name) and e.value.value.id == "self")

    def counter_writes(node):
        out = []
        for n in ast.walk(node):
            if isinstance(n, ast.Assign) and any(is_counter_value(t) for t in n.targets):
                out.append(n)
            elif isinstance(n, ast.AugAssign) and is_counter_value(n.target):
                out.append(n)
        return out

    def sleep_calls(node):
        return [n for n in ast.walk(node) if isinstance(n, ast.Call) and isinstance(n.func, ast.Attribute) and n.func.attr == "sleep"]

    def pos(n):
        return (n.lineno, n.col_offset)

    facts = {"failHasUpdate": False, "failCountedInsideLock": False, "failCountedBeforeSleep": False, "failSleeps": False,
             "compareGuardedByGate": False, "gateThreshold": 0, "wrongBranchCallsFail": False, "rightBranchResets": False,
             "staleBranchCallsFail": False}
    f = fn.get("_fail_pin_auth")
    if f is not None:
        writes = counter_writes(f)
        sleeps = sleep_calls(f)
        locks = [n for n in ast.walk(f) if isinstance(n, ast.With) and any(
            isinstance(i.context_expr, ast.Call) and isinstance(i.context_expr.func, ast.Attribute) and i.context_expr.func.attr == "get_lock"
            for i in n.items)]
        locked = {id(w) for lk in locks for w in counter_writes(lk)}
        facts["failHasUpdate"] = bool(writes)
        facts["failSleeps"] = bool(sleeps)
        facts["failCountedInsideLock"] = bool(writes) and all(id(w) in locked for w in writes)
        # straight-line body: the update statement(s) come first, every delay after them; no loops
        no_loops = not any(isinstance(n, (ast.For, ast.While, ast.Try)) for n in ast.walk(f))
        facts["failCountedBeforeSleep"] = bool(writes) and no_loops and all(pos(w) < pos(sl) for w in writes for sl in sleeps)
    p = fn.get("pin_auth")
    if p is not None:
        def calls_fail(stmts):
            return any(isinstance(n, ast.Call) and isinstance(n.func, ast.Attribute) and n.func.attr == "_fail_pin_auth"
                       for st in stmts for n in ast.walk(st))

        for n in ast.walk(p):
            if not isinstance(n, ast.If):
                continue
            t = n.test
            # `trust is None` branch counts a failure
            if isinstance(t, ast.Compare) and isinstance(t.left, ast.Name) and t.left.id == "trust" and isinstance(t.ops[0], ast.Is):
                facts["staleBranchCallsFail"] = calls_fail(n.body)
            # `elif self._failed_pin_auth.value > N: exhausted` with the PIN comparison only in its else
            if isinstance(t, ast.Compare) and is_counter_value(t.left) and len(t.ops) == 1 and isinstance(t.ops[0], ast.Gt) \
                    and isinstance(t.comparators[0], ast.Constant) and isinstance(t.comparators[0].value, int):
                facts["gateThreshold"] = t.comparators[0].value
                inner = [m for st in n.orelse for m in ast.walk(st) if isinstance(m, ast.If)]
                cmp_ifs = [m for m in inner if any(isinstance(c, ast.Name) and c.id == "entered_pin" for c in ast.walk(m.test))]
                all_cmp = [m for m in ast.walk(p) if isinstance(m, ast.If) and any(isinstance(c, ast.Name) and c.id == "entered_pin" for c in ast.walk(m.test))]
                facts["compareGuardedByGate"] = len(cmp_ifs) == 1 and len(all_cmp) == 1 and not any(
                    isinstance(c, ast.Name) and c.id == "entered_pin" for st in n.body for c in ast.walk(st))
                if cmp_ifs:
                    facts["wrongBranchCallsFail"] = calls_fail(cmp_ifs[0].orelse) and not calls_fail(cmp_ifs[0].body)
                    facts["rightBranchResets"] = any(
                        isinstance(w, ast.Assign) and isinstance(w.value, ast.Constant) and w.value.value == 0 for w in counter_writes(ast.Module(body=cmp_ifs[0].body, type_ignores=[])))
    return facts


def lean_chars(s):
    if s is None:
        return "none"
    return "(some [" + ", ".join(f"Char.ofNat {ord(c)}" for c in s) + "])"


@generator("Debugger")
def gen_debugger():
    from werkzeug.sansio.utils import host_is_trusted

    outs = []
    for cmd in CMDS:
        for secret in SECRETS:
            for host, _ in HOSTS:
                for cookie in COOKIES:
                    for frame in FRAMES:
                        for evalex in BOOLS:
                            for pin_on in BOOLS:
                                outs.append(observe(cmd, secret, host, cookie, frame, evalex, pin_on))
    ROWLEN = len(COOKIES) * len(FRAMES) * 2 * 2
    packed = []
    for i in range(0, len(outs), ROWLEN):
        chunk = [min(o, 15) for o in outs[i : i + ROWLEN]]
        packed.append("0x" + "".join("%x" % d for d in reversed(chunk)))
    facts = pin_auth_structure()
    default_trusted = Rig(False, False).app.trusted_hosts
    hosts = []
    verdict_codes = []
    for h, k in HOSTS:
        try:
            verdict = host_is_trusted(h, default_trusted)
        except Exception:  # an escaping exception is not a verdict
            verdict = None
        code = {True: 1, False: 0, None: 2}[verdict]
        verdict_codes.append(str(code))
        hosts.append(f"({lean_chars(h)}, {'TUE'.index(k)}, {code})")
    body = f"""namespace Wz.Gen.Debugger

/-- sizes of the dimensions, in nesting order: command {CMDS}, secret {SECRETS},
Host (see `hosts`), PIN cookie {COOKIES}, frame id {FRAMES}, evalex [on, off], pin [on, off] -/
def dims : List Nat := {DIMS}

/-- Host header values: text, class by the property text (0 = trusted name or true subdomain,
1 = must never be accepted, 2 = letter-case variant, either verdict), and what the live
`host_is_trusted(host, DebuggedApplication.trusted_hosts)` answered (1 True, 0 False, 2 raised) -/
def hosts : List (Option (List Char) × Nat × Nat) := {lean_list(hosts, 1)}

/-- `DebuggedApplication.trusted_hosts` default -/
def defaultTrusted : List (List Char) := [{", ".join("[" + ", ".join(f"Char.ofNat {ord(c)}" for c in t) + "]" for t in default_trusted)}]

/-! facts read off the AST of `DebuggedApplication._fail_pin_auth` and `pin_auth` (tools/gen/c20.py) -/

/-- `_fail_pin_auth` assigns `self._failed_pin_auth.value` -/
def failHasUpdate : Bool := {lean_bool(facts["failHasUpdate"])}
/-- every such assignment is inside a `with self._failed_pin_auth.get_lock():` block -/
def failCountedInsideLock : Bool := {lean_bool(facts["failCountedInsideLock"])}
/-- `_fail_pin_auth` is straight-line code in which every counter assignment lexically precedes every
`time.sleep(...)` call: the failure is counted before the penalty delay starts -/
def failCountedBeforeSleep : Bool := {lean_bool(facts["failCountedBeforeSleep"])}
def failSleeps : Bool := {lean_bool(facts["failSleeps"])}
/-- in `pin_auth` the only comparison with the entered PIN sits in the `else` of
`elif self._failed_pin_auth.value > gateThreshold:` -/
def compareGuardedByGate : Bool := {lean_bool(facts["compareGuardedByGate"])}
def gateThreshold : Nat := {facts["gateThreshold"]}
/-- the wrong-PIN branch (and only it) of that comparison calls `_fail_pin_auth()` -/
def wrongBranchCallsFail : Bool := {lean_bool(facts["wrongBranchCallsFail"])}
/-- the right-PIN branch sets the counter to 0 -/
def rightBranchResets : Bool := {lean_bool(facts["rightBranchResets"])}
/-- the `trust is None` (stale cookie) branch calls `_fail_pin_auth()` -/
def staleBranchCallsFail : Bool := {lean_bool(facts["staleBranchCallsFail"])}

def nCmd : Nat := {len(CMDS)}
def nSec : Nat := {len(SECRETS)}
def nHost : Nat := {len(HOSTS)}
def nCookie : Nat := {len(COOKIES)}
def nFrame : Nat := {len(FRAMES)}

/-- class column of `hosts` -/
def hostClasses : List Nat := [{", ".join(str('TUE'.index(k)) for _, k in HOSTS)}]

/-- live verdict column of `hosts` -/
def hostVerdicts : List Nat := [{", ".join(verdict_codes)}]

/-- number of points per packed row: the four fastest dimensions (cookie x frame x evalex x pin) -/
def rowLen : Nat := {ROWLEN}

/-- number of packed rows: command x secret x Host -/
def nRows : Nat := {len(packed)}

/-- observed outcome of the real `DebuggedApplication.__call__` for every point of the product, in
mixed-radix order of `dims` (last dimension fastest), packed {ROWLEN} points per number as hex digits
(least significant digit = first point): 0 inner app ran, 1 resource 200, 2 resource 404,
3 SecurityError (400), 4 the spy frame's eval ran, 5 console page, 6 printpin logged,
7 printpin answered without logging, 8+2*auth+exhausted pinauth JSON, f anything else -/
def rows : List Nat := {lean_list(packed, 4)}

end Wz.Gen.Debugger
"""
    return write("Debugger", body, "src/werkzeug/debug/__init__.py (DebuggedApplication), src/werkzeug/sansio/utils.py (host_is_trusted)")


# --------------------------------------------------------------------------
# the widened product: refinements of the secret / cookie / frame-id / Host dimensions, a fixed clock

W_CMDS = ["eval", "console", "pinauth-right", "pinauth-wrong", "printpin", "resource", "nocmd"]
W_SECRETS = ["right", "wrong", "absent", "upper", "prefix", "empty"]  # upper = case-swapped, prefix = last character missing
# (Host, class by the property text: T listed name / true subdomain, U never acceptable, E either)
W_HOSTS = [("localhost:5000", "T"), ("sub.localhost.", "E"), ("LOCALHOST", "E"), ("[::1]:5000", "U"), ("evil.localhost.evil.com", "U"), (None, "U")]
W_COOKIES = ["valid", "edge-valid", "edge-expired", "wronghash", "malformed", "badts", "empty", "absent"]
W_FRAMES = ["known", "unknown", "missing", "nonint"]
W_CLOCK = 2_000_000_000.5  # time.time() during every request of the wide table (fractional on purpose)

# trusted_hosts customised x request method (everything else passes the gates)
T_CMDS = W_CMDS
T_HOSTS = ["localhost", "[::1]:5000", "sub.example.com", "evil.com", None, "Example.COM:80"]
T_TRUSTED = [None, ["[::1]", ".example.com"], []]  # None = the default list
T_METHODS = ["GET", "POST"]


def observe_wide(rigs, cmd, secret, host, cookie, frame, evalex, pin_on):
    rig = rigs[(evalex, pin_on)]
    rig.app._failed_pin_auth.value = 0
    path, q = rig.build_query(cmd, secret, frame)
    try:
        return classify(rig.request(path, q, host, cookie))
    except Exception:
        return OUT_ODD


def debugger_structure():
    """more facts read off the AST of debug/__init__.py (no execution); unknown shapes give False / 0 / ''"""
    import ast
    import os

    from extract_lib import REPO

    tree = ast.parse(open(os.path.join(REPO, "src", "werkzeug", "debug", "__init__.py")).read())
    u = ast.unparse
    cls = next(n for n in tree.body if isinstance(n, ast.ClassDef) and n.name == "DebuggedApplication")
    fn = {n.name: n for n in cls.body if isinstance(n, ast.FunctionDef)}
    f = {"pinTimeExpr": "", "hashPinExpr": "", "expiryTest": "", "cookieSplit": "", "hashTest": "", "tsParse": "", "pinCompare": "", "delayExpr": "",
         "secretTests": [], "hostGateFirst": [], "issuedCookie": "", "cookieFlags": [], "callTests": [], "hostTrustExpr": ""}
    for n in tree.body:
        if isinstance(n, ast.Assign) and u(n.targets[0]) == "PIN_TIME":
            f["pinTimeExpr"] = u(n.value)
        if isinstance(n, ast.FunctionDef) and n.name == "hash_pin":
            f["hashPinExpr"] = u(n.body[-1].value) if isinstance(n.body[-1], ast.Return) else ""
    cpt = fn.get("check_pin_trust")
    if cpt is not None:
        f["expiryTest"] = u(cpt.body[-1].value) if isinstance(cpt.body[-1], ast.Return) else ""
        f["cookieSplit"] = next((u(n) for n in ast.walk(cpt) if isinstance(n, ast.Assign) and "split" in u(n.value)), "")
        f["hashTest"] = next((u(n.test) for n in ast.walk(cpt) if isinstance(n, ast.If) and "hash_pin" in u(n.test)), "")
        f["tsParse"] = next((u(n) for n in ast.walk(cpt) if isinstance(n, ast.Assign) and u(n.targets[0]) == "ts"), "")
    pa = fn.get("pin_auth")
    if pa is not None:
        f["pinCompare"] = next((u(n.test) for n in ast.walk(pa) if isinstance(n, ast.If) and "entered_pin" in u(n.test)), "")
        sc = [n for n in ast.walk(pa) if isinstance(n, ast.Call) and u(n.func) == "rv.set_cookie"]
        if len(sc) == 1:
            f["issuedCookie"] = u(sc[0].args[1]) if len(sc[0].args) > 1 else ""
            f["cookieFlags"] = sorted(f"{k.arg}={u(k.value)}" for k in sc[0].keywords)
    fp = fn.get("_fail_pin_auth")
    if fp is not None:
        sl = [n for n in ast.walk(fp) if isinstance(n, ast.Call) and u(n.func) == "time.sleep"]
        f["delayExpr"] = u(sl[0].args[0]) if len(sl) == 1 else ""
    call = fn.get("__call__")
    if call is not None:
        f["callTests"] = [u(n.test) for n in ast.walk(call) if isinstance(n, ast.If)]
        f["secretTests"] = sorted(u(n) for n in ast.walk(call) if isinstance(n, ast.Compare) and "secret" in u(n))
    for name in ("execute_command", "display_console", "pin_auth", "log_pin_request"):
        g = fn.get(name)
        body = [s_ for s_ in (g.body if g else []) if not (isinstance(s_, ast.Expr) and isinstance(s_.value, ast.Constant))]
        ok = bool(body) and isinstance(body[0], ast.If) and u(body[0].test) == "not self.check_host_trust(request.environ)" \
            and len(body[0].body) == 1 and u(body[0].body[0]) == "return SecurityError()"
        if ok:
            f["hostGateFirst"].append(name)
    ch = fn.get("check_host_trust")
    if ch is not None and isinstance(ch.body[-1], ast.Return):
        f["hostTrustExpr"] = u(ch.body[-1].value)
    return f


@generator("DebuggerWide")
def gen_debugger_wide():
    from extract_lib import lean_str
    from werkzeug.debug import PIN_TIME, hash_pin

    facts = debugger_structure()

    def lstr(x):
        return "[" + ", ".join(f"Char.ofNat {ord(c)}" for c in x) + "]"

    def llist(xs):
        return "[" + ", ".join(lstr(x) for x in xs) + "]"

    rigs = {}
    for evalex in BOOLS:
        for pin_on in BOOLS:
            r = Rig(evalex, pin_on)
            r.clock = W_CLOCK
            rigs[(evalex, pin_on)] = r
    packed = []
    rowlen = len(W_COOKIES) * len(W_FRAMES) * 4
    for cmd in W_CMDS:
        for secret in W_SECRETS:
            for host, _ in W_HOSTS:
                digits = []
                for cookie in W_COOKIES:
                    for frame in W_FRAMES:
                        for evalex in BOOLS:
                            for pin_on in BOOLS:
                                digits.append(min(observe_wide(rigs, cmd, secret, host, cookie, frame, evalex, pin_on), 15))
                packed.append("0x" + "".join("%x" % d for d in reversed(digits)))
    trust_rows = []
    for ci, cmd in enumerate(T_CMDS):
        for hi, host in enumerate(T_HOSTS):
            for ti, trusted in enumerate(T_TRUSTED):
                for mi, method in enumerate(T_METHODS):
                    for pin_on in BOOLS:
                        rig = Rig(True, pin_on, trusted_hosts=trusted)
                        path, q = rig.build_query(cmd, "right", "known")
                        try:
                            out = classify(rig.request(path, q, host, "valid", method=method))
                        except Exception:
                            out = OUT_ODD
                        trust_rows.append(f"({ci}, {hi}, {ti}, {mi}, {lean_bool(pin_on)}, {min(out, 15)})")
    default_trusted = Rig(False, False).app.trusted_hosts

    # the cookie values the rig presents, with the two hash texts replaced by the symbols R (hash of the
    # current PIN) and W (hash of another PIN)
    crig = Rig(False, True)
    crig.clock = W_CLOCK
    right, wrong = hash_pin(PIN), hash_pin("000-000-000")
    ctexts = []
    for kind in W_COOKIES:
        v = crig.cookie_value(kind)
        ctexts.append("none" if v is None else "(some " + lstr(v.replace(right, "R").replace(wrong, "W")) + ")")

    def sl(xs):
        return "[" + ", ".join(lean_str(x) for x in xs) + "]"

    body = f"""namespace Wz.Gen.DebuggerWide

/-- `werkzeug.debug.PIN_TIME` -/
def pinTime : Nat := {int(PIN_TIME)}

/-- `floor(time.time())` during the requests of the wide table -/
def clockFloor : Nat := {int(W_CLOCK)}

/-- the PIN cookie values presented (`none` = no cookie), the hash of the current PIN written `R`, the
hash of another PIN `W` -/
def cookieTexts : List (Option (List Char)) := [{", ".join(ctexts)}]

/-! facts read off the AST of debug/__init__.py (tools/gen/c20.py: debugger_structure) -/

def pinTimeExpr : String := {lean_str(facts["pinTimeExpr"])}
/-- the expression `hash_pin` returns -/
def hashPinExpr : String := {lean_str(facts["hashPinExpr"])}
/-- `check_pin_trust`: how the cookie is split, how the timestamp is read, the hash test, the final expiry test -/
def cookieSplit : String := {lean_str(facts["cookieSplit"])}
def tsParse : String := {lean_str(facts["tsParse"])}
def hashTest : String := {lean_str(facts["hashTest"])}
def expiryTest : String := {lean_str(facts["expiryTest"])}
/-- `pin_auth`: the comparison with the entered PIN, the value and flags of the cookie it issues -/
def pinCompare : String := {lean_str(facts["pinCompare"])}
def issuedCookie : String := {lean_str(facts["issuedCookie"])}
def cookieFlags : List String := {sl(facts["cookieFlags"])}
/-- `_fail_pin_auth`: the argument of its `time.sleep` -/
def delayExpr : String := {lean_str(facts["delayExpr"])}
/-- `__call__`: the tests of its `if` / `elif` chain in source order, and every comparison that mentions the secret -/
def callTests : List String := {sl(facts["callTests"])}
def secretTests : List String := {sl(facts["secretTests"])}
/-- the handlers whose first statement is `if not self.check_host_trust(request.environ): return SecurityError()` -/
def hostGateFirst : List String := {sl(facts["hostGateFirst"])}
/-- what `check_host_trust` returns -/
def hostTrustExpr : String := {lean_str(facts["hostTrustExpr"])}

/-- dimensions in nesting order: command {W_CMDS}, secret {W_SECRETS} (upper = the secret with its letter
case swapped, prefix = without its last character), Host {[h for h, _ in W_HOSTS]}, PIN cookie {W_COOKIES}
(edge-valid: timestamp `floor(now) - PIN_TIME + 1`, edge-expired: `floor(now) - PIN_TIME`; `time.time()` fixed at
{W_CLOCK}), frame id {W_FRAMES}, evalex [on, off], pin [on, off] -/
def nCmd : Nat := {len(W_CMDS)}
def nSec : Nat := {len(W_SECRETS)}
def nHost : Nat := {len(W_HOSTS)}
def nCookie : Nat := {len(W_COOKIES)}
def nFrame : Nat := {len(W_FRAMES)}
def rowLen : Nat := {rowlen}
def nRows : Nat := {len(packed)}

/-- class of each Host by the property text: 0 = listed name / true subdomain, 1 = must never be accepted,
2 = either verdict (letter case, trailing dot) -/
def hostClasses : List Nat := [{", ".join(str("TUE".index(k)) for _, k in W_HOSTS)}]

/-- Host header texts (`none` = no Host header) -/
def hostTexts : List (Option (List Char)) := [{", ".join("none" if h is None else "(some " + lstr(h) + ")" for h, _ in W_HOSTS)}]

/-- `DebuggedApplication.trusted_hosts` default -/
def defaultTrusted : List (List Char) := {llist(default_trusted)}

/-- observed outcome of the real `DebuggedApplication.__call__` at every point, packed {rowlen} points per
number as hex digits (least significant digit = first point; codes as in `Gen.Debugger.rows`) -/
def rows : List Nat := {lean_list(packed, 1)}

/-! trusted_hosts customised x request method: right secret, valid cookie, known frame, evalex on -/

/-- Host header texts of the second table -/
def tHosts : List (Option (List Char)) := [{", ".join("none" if h is None else "(some " + lstr(h) + ")" for h in T_HOSTS)}]
/-- `app.trusted_hosts` settings: the default, a custom list, the empty list -/
def tTrusted : List (List (List Char)) := [{llist(default_trusted)}, {llist(T_TRUSTED[1])}, []]
/-- (command index, Host index, trusted_hosts index, method index {T_METHODS}, pin on, observed outcome) -/
def trustRows : List (Nat × Nat × Nat × Nat × Bool × Nat) := {lean_list(trust_rows, 6)}

end Wz.Gen.DebuggerWide
"""
    return write("DebuggerWide", body, "src/werkzeug/debug/__init__.py (DebuggedApplication)")
