"""C17: decision tables of the regexes / the q check that content negotiation is driven by,
evaluated from the live module objects."""
import importlib
import itertools

from extract_lib import generator, lean_bool, lean_list, write


def lean_chars(s):
    """a `List Char` literal (explicit list: `String.toList` of a literal is slow in the kernel)"""
    def ch(c):
        return "'\\''" if c == "'" else "'\\\\'" if c == "\\" else f"'{c}'" if 32 <= ord(c) < 127 else "(Char.ofNat %d)" % ord(c)
    return "[" + ", ".join(ch(c) for c in s) + "]"

Q_ALPHABET = "-.015x"


def canonq(q):
    from decimal import Decimal

    d = Decimal(repr(q)) if isinstance(q, float) else Decimal(q)
    _, digits, exp = d.normalize().as_tuple()
    n = int("".join(map(str, digits)))
    return (n * 10**exp, 0) if exp >= 0 else (n, -exp)


@generator("AcceptTbl")
def gen_accept():
    http = importlib.import_module("werkzeug.http")
    acc = importlib.import_module("werkzeug.datastructures.accept")
    # parse_accept_header("a;q=<s>") for every s of length 1..3 over a small alphabet, and the length-4 texts starting 0. 1. -0 -1:
    # exercises _q_value_re, float() and the range check together
    rows = []
    texts = ["".join(t) for n in range(1, 4) for t in itertools.product(Q_ALPHABET, repeat=n)]
    # length 4: the decimal shapes only (the kernel needs ~30 ms per row)
    texts += [p + "".join(t) for p in ("0.", "1.", "-0", "-1") for t in itertools.product(Q_ALPHABET, repeat=2)]
    for s in texts:
        if True:
            res = list(http.parse_accept_header("a;q=" + s))
            if not res:
                rows.append(f"({lean_chars(s)}, none)")
            else:
                assert len(res) == 1 and res[0][0] == "a", (s, res)
                num, scale = canonq(res[0][1])
                rows.append(f"({lean_chars(s)}, some ({num}, {scale}))")
    lang = [bool(acc._locale_delim_re.fullmatch(chr(c))) for c in range(256)]
    mime = [bool(acc._mime_split_re.fullmatch(chr(c))) for c in range(256)]
    mime_ws = [bool(acc._mime_split_re.fullmatch(chr(c) + ";" + chr(c))) for c in range(256)]
    body = f"""namespace Wz.Gen.AcceptTbl

/-- `parse_accept_header("a;q=" + s)` for every `s` of length 1..3 over `{Q_ALPHABET}` and the length-4 texts starting `0.` `1.` `-0` `-1`:
`none` = the item is dropped, `some (num, scale)` = kept with q = num / 10^scale (normalised). -/
def qTable : List (List Char × Option (Nat × Nat)) := {lean_list(rows, 4)}

/-- `_locale_delim_re.fullmatch(chr c)` for c = 0..255 -/
def langDelim : List Bool := {lean_list([lean_bool(b) for b in lang])}

/-- `_mime_split_re.fullmatch(chr c)` for c = 0..255 -/
def mimeDelim : List Bool := {lean_list([lean_bool(b) for b in mime])}

/-- `_mime_split_re.fullmatch(chr c + ";" + chr c)` for c = 0..255 (whitespace absorbed by the delimiter) -/
def mimeWs : List Bool := {lean_list([lean_bool(b) for b in mime_ws])}

end Wz.Gen.AcceptTbl
"""
    return write("AcceptTbl", body, "src/werkzeug/http.py, src/werkzeug/datastructures/accept.py")
