"""C17: decision tables of the regexes / the q check that content negotiation is driven by,
evaluated from the live module objects."""
import importlib
import itertools

from extract_lib import generator, lean_bool, lean_list, write


def lean_chars(s):
    """a `List Char` literal (explicit list: `String.toList` of a literal is slow in the kernel)"""
    def ch(c):
        return "'\\''" if c == "'" else "'\\\\'" if c == "\\" else f"'{c}'" if 32 <= ord(c) < 127 else "(Char.ofNat %d)" % ord(c)
    return "[" + ", ".join(ch(c) for c in s) + "]"

Q_ALPHABET = "-.015x"


def canonq(q):
    from decimal import Decimal

    d = Decimal(repr(q)) if isinstance(q, float) else Decimal(q)
    _, digits, exp = d.normalize().as_tuple()
    n = int("".join(map(str, digits)))
    return (n * 10**exp, 0) if exp >= 0 else (n, -exp)


@generator("AcceptTbl")
def gen_accept():
    http = importlib.import_module("werkzeug.http")
    acc = importlib.import_module("werkzeug.datastructures.accept")
    # parse_accept_header("a;q=<s>") for every s of length 1..3 over a small alphabet, and the length-4 texts starting 0. 1. -0 -1:
    # exercises _q_value_re, float() and the range check together
    rows = []
    texts = ["".join(t) for n in range(1, 4) for t in itertools.product(Q_ALPHABET, repeat=n)]
    # length 4: the decimal shapes only (the kernel needs ~30 ms per row)
    texts += [p + "".join(t) for p in ("0.", "1.", "-0", "-1") for t in itertools.product(Q_ALPHABET, repeat=2)]
    for s in texts:
        if True:
            res = list(http.parse_accept_header("a;q=" + s))
            if not res:
                rows.append(f"({lean_chars(s)}, none)")
            else:
                assert len(res) == 1 and res[0][0] == "a", (s, res)
                num, scale = canonq(res[0][1])
                rows.append(f"({lean_chars(s)}, some ({num}, {scale}))")
    lang = [bool(acc._locale_delim_re.fullmatch(chr(c))) for c in range(256)]
    mime = [bool(acc._mime_split_re.fullmatch(chr(c))) for c in range(256)]
    mime_ws = [bool(acc._mime_split_re.fullmatch(chr(c) + ";" + chr(c))) for c in range(256)]
    body = f"""namespace Wz.Gen.AcceptTbl

/-- `parse_accept_header("a;q=" + s)` for every `s` of length 1..3 over `{Q_ALPHABET}` and the length-4 texts starting `0.` `1.` `-0` `-1`:
`none` = the item is dropped, `some (num, scale)` = kept with q = num / 10^scale (normalised). -/
def qTable : List (List Char × Option (Nat × Nat)) := {lean_list(rows, 4)}

/-- `_locale_delim_re.fullmatch(chr c)` for c = 0..255 -/
def langDelim : List Bool := {lean_list([lean_bool(b) for b in lang])}

/-- `_mime_split_re.fullmatch(chr c)` for c = 0..255 -/
def mimeDelim : List Bool := {lean_list([lean_bool(b) for b in mime])}

/-- `_mime_split_re.fullmatch(chr c + ";" + chr c)` for c = 0..255 (whitespace absorbed by the delimiter) -/
def mimeWs : List Bool := {lean_list([lean_bool(b) for b in mime_ws])}

end Wz.Gen.AcceptTbl
"""
    return write("AcceptTbl", body, "src/werkzeug/http.py, src/werkzeug/datastructures/accept.py")


# ---------------------------------------------------------------------------------------------
# the Request attributes and the MIMEAccept convenience flags, read from the AST


def _src_tree(rel):
    import ast
    import os

    from extract_lib import REPO

    with open(os.path.join(REPO, "src", rel)) as f:
        return ast.parse(f.read())


@generator("AcceptApi")
def gen_accept_api():
    import ast

    # Request.accept_*: `return parse_accept_header(self.headers.get(<header>)[, <class>])`
    attrs = []
    tree = _src_tree("werkzeug/sansio/request.py")
    for cls in [n for n in tree.body if isinstance(n, ast.ClassDef) and n.name == "Request"]:
        for fn in [n for n in cls.body if isinstance(n, ast.FunctionDef) and n.name.startswith("accept_")]:
            calls = [c for c in ast.walk(fn) if isinstance(c, ast.Call) and getattr(c.func, "id", None) == "parse_accept_header"]
            assert len(calls) == 1, fn.name
            call = calls[0]
            get = call.args[0]
            assert isinstance(get, ast.Call) and ast.unparse(get.func) == "self.headers.get" and len(get.args) == 1, ast.unparse(get)
            header = get.args[0].value
            clsname = ast.unparse(call.args[1]) if len(call.args) > 1 else "Accept"
            attrs.append(f"({lean_chars(fn.name)}, {lean_chars(header)}, {lean_chars(clsname)})")
    # MIMEAccept.accept_*: the media types tested with `in self` and the other flags consulted
    flags = []
    tree = _src_tree("werkzeug/datastructures/accept.py")
    for cls in [n for n in tree.body if isinstance(n, ast.ClassDef) and n.name == "MIMEAccept"]:
        for fn in [n for n in cls.body if isinstance(n, ast.FunctionDef) and n.name.startswith("accept_")]:
            lits, refs, shape = [], [], []
            for n in ast.walk(fn):
                if isinstance(n, ast.Compare):
                    assert len(n.ops) == 1 and isinstance(n.ops[0], ast.In) and ast.unparse(n.comparators[0]) == "self", ast.unparse(n)
                    lits.append(n.left.value)
                elif isinstance(n, ast.Attribute) and isinstance(n.value, ast.Name) and n.value.id == "self":
                    refs.append(n.attr)
                elif isinstance(n, ast.BoolOp):
                    shape.append(type(n.op).__name__)
            assert all(x == "Or" for x in shape), (fn.name, shape)
            flags.append(f"({lean_chars(fn.name)}, [{', '.join(lean_chars(x) for x in lits)}], [{', '.join(lean_chars(x) for x in refs)}])")
    # which classes override which of the methods the model gives per class
    acc = importlib.import_module("werkzeug.datastructures.accept")
    over = []
    for cname in ("Accept", "MIMEAccept", "LanguageAccept", "CharsetAccept"):
        c = getattr(acc, cname)
        own = sorted(k for k in vars(c) if k in ("_specificity", "_value_matches", "best_match", "quality", "_best_single_match", "find", "index", "__contains__", "__getitem__", "to_header", "values", "best", "__init__"))
        over.append(f"({lean_chars(cname)}, [{', '.join(lean_chars(k) for k in own)}])")
    body = f"""namespace Wz.Gen.AcceptApi

/-- `Request.accept_*`: (attribute, request header read, class built), in source order -/
def requestAttrs : List (List Char × List Char × List Char) := {lean_list(attrs, 1)}

/-- `MIMEAccept.accept_*`: (flag, media types tested with `in self`, other flags or-ed in) -/
def mimeFlags : List (List Char × List (List Char) × List (List Char)) := {lean_list(flags, 1)}

/-- which of the negotiation methods each class defines itself (the rest is inherited from `Accept`) -/
def overrides : List (List Char × List (List Char)) := {lean_list(over, 1)}

end Wz.Gen.AcceptApi
"""
    return write("AcceptApi", body, "src/werkzeug/sansio/request.py, src/werkzeug/datastructures/accept.py")
