"""C14: constants that drive safe_join / secure_filename, taken from the live modules and the AST."""
import ast
import importlib
import os

from extract_lib import REPO, generator, lean_bool, lean_list, lean_str, write


def _strip_literal():
    """the literal argument of the `.strip(...)` call inside utils.secure_filename (AST)"""
    path = os.path.join(REPO, "src", "werkzeug", "utils.py")
    tree = ast.parse(open(path).read())
    fn = [n for n in ast.walk(tree) if isinstance(n, ast.FunctionDef) and n.name == "secure_filename"]
    if len(fn) != 1:
        raise RuntimeError("utils.secure_filename not found exactly once")
    lits = []
    joins = []
    for n in ast.walk(fn[0]):
        if isinstance(n, ast.Call) and isinstance(n.func, ast.Attribute):
            if n.func.attr == "strip":
                if len(n.args) != 1 or not isinstance(n.args[0], ast.Constant) or not isinstance(n.args[0].value, str):
                    raise RuntimeError("secure_filename: .strip() call without a single string literal")
                lits.append(n.args[0].value)
            if n.func.attr == "join" and isinstance(n.func.value, ast.Constant):
                joins.append(n.func.value.value)
    if len(lits) != 1 or len(joins) != 1:
        raise RuntimeError(f"secure_filename: expected one strip literal and one join literal, got {lits} {joins}")
    return lits[0], joins[0]


def _fn_literals(path, name):
    """sorted set of the string constants in the body of top-level function `name` (docstring excluded)"""
    tree = ast.parse(open(path).read())
    fn = [n for n in tree.body if isinstance(n, ast.FunctionDef) and n.name == name]
    if len(fn) != 1:
        raise RuntimeError(f"{name} not found exactly once in {path}")
    body = fn[0].body
    if body and isinstance(body[0], ast.Expr) and isinstance(body[0].value, ast.Constant) and isinstance(body[0].value.value, str):
        body = body[1:]
    lits = set()
    for st in body:
        for n in ast.walk(st):
            if isinstance(n, ast.Constant) and isinstance(n.value, str):
                lits.add(n.value)
    return sorted(lits)


@generator("Paths")
def gen_paths():
    sec = importlib.import_module("werkzeug.security")
    utils = importlib.import_module("werkzeug.utils")
    alt = list(sec._os_alt_seps)
    if not all(isinstance(s, str) and len(s) == 1 for s in alt):
        raise RuntimeError("_os_alt_seps: expected single-character strings")
    rx = utils._filename_ascii_strip_re
    removed = [bool(rx.fullmatch(chr(c))) for c in range(128)]
    removed_high = all(rx.fullmatch(chr(c)) for c in range(128, 0x110000) if not 0xD800 <= c < 0xE000)
    seps = [s for s in (os.sep, os.path.altsep) if s]
    if not all(len(s) == 1 for s in seps):
        raise RuntimeError("os.sep / os.path.altsep: expected single characters")
    spaces = [c for c in range(0x110000) if chr(c).isspace()]
    strip_lit, join_lit = _strip_literal()
    devices = sorted(utils._windows_device_files)
    if not all(isinstance(d, str) and d.isascii() for d in devices):
        raise RuntimeError("_windows_device_files: expected ASCII strings")
    uppers = []
    for c in range(128):
        u = chr(c).upper()
        if len(u) != 1:
            raise RuntimeError("str.upper on ASCII: expected single characters")
        uppers.append(ord(u))
    import posixpath

    for name in ("sep", "curdir", "pardir"):
        if not isinstance(getattr(posixpath, name), str):
            raise RuntimeError("posixpath." + name)
    import unicodedata

    nfkd_ascii = all(unicodedata.normalize("NFKD", chr(a)) == chr(a) for a in range(128)) and all(
        unicodedata.normalize("NFKD", chr(a) + chr(b)) == chr(a) + chr(b) for a in range(128) for b in range(128)
    )
    sj_lits = _fn_literals(os.path.join(REPO, "src", "werkzeug", "security.py"), "safe_join")
    sf_lits = _fn_literals(os.path.join(REPO, "src", "werkzeug", "utils.py"), "secure_filename")
    body = f"""namespace Wz.Gen.Paths

/-- `werkzeug.security._os_alt_seps` (single characters; empty on POSIX). -/
def osAltSeps : List Char := {lean_list([f"Char.ofNat {ord(s)}" for s in alt]) if alt else "[]"}

/-- `os.sep, os.path.altsep` (the truthy ones), replaced by a space in `secure_filename`. -/
def osSeps : List Char := {lean_list([f"Char.ofNat {ord(s)}" for s in seps])}

/-- `os.name == "nt"` (the Windows device-file branch of `secure_filename`). -/
def osNameNt : Bool := {lean_bool(os.name == "nt")}

/-- `_filename_ascii_strip_re.fullmatch(chr c)` for c = 0..127: the characters *removed*. -/
def stripRe : List Bool := {lean_list([lean_bool(b) for b in removed])}

/-- does `_filename_ascii_strip_re` remove every code point above 0x7f? -/
def stripReHigh : Bool := {lean_bool(removed_high)}

/-- the literal passed to `.strip(...)` in `secure_filename` -/
def stripChars : List Char := {lean_str(strip_lit)}.toList

/-- the literal joining the whitespace-separated words in `secure_filename` -/
def joinChars : List Char := {lean_str(join_lit)}.toList

/-- code points for which `str.isspace()` holds (what `str.split()` splits on). -/
def pySpaces : List Nat := {lean_list([str(c) for c in spaces])}

/-- `sorted(werkzeug.utils._windows_device_files)` -/
def windowsDeviceFiles : List String := {lean_list([lean_str(d) for d in devices], 8)}

/-- `ord(chr(c).upper())` for c = 0..127 (what `str.upper` does to ASCII text) -/
def upperAscii : List Nat := {lean_list([str(u) for u in uppers])}

/-- `_filename_ascii_strip_re.pattern` and `.flags` (re.UNICODE = 32 is the str default) -/
def stripRePattern : String := {lean_str(rx.pattern)}
def stripReFlags : Nat := {int(rx.flags)}

/-- the only law assumed of the opaque `unicodedata.normalize("NFKD", ·)`: identity on ASCII text -
evaluated here on every ASCII string of length 1 and 2 -/
def nfkdAsciiIdentity : Bool := {lean_bool(nfkd_ascii)}

/-- `os.sep`, `os.path.altsep` on the generating platform (`none` = `None`) -/
def osSep : String := {lean_str(os.sep)}
def osAltsep : Option String := {"none" if os.path.altsep is None else "some " + lean_str(os.path.altsep)}

/-- `posixpath.sep / curdir / pardir`: the constants the hand model of normpath / join hard-codes -/
def posixSep : String := {lean_str(posixpath.sep)}
def posixCurdir : String := {lean_str(posixpath.curdir)}
def posixPardir : String := {lean_str(posixpath.pardir)}

/-- every string literal in the body of `security.safe_join` (docstring excluded), sorted -/
def safeJoinLiterals : List String := {lean_list([lean_str(x) for x in sj_lits], 8)}

/-- every string literal in the body of `utils.secure_filename` (docstring excluded), sorted -/
def secureFilenameLiterals : List String := {lean_list([lean_str(x) for x in sf_lits], 8)}

end Wz.Gen.Paths
"""
    return write("Paths", body, "src/werkzeug/security.py, src/werkzeug/utils.py")


def _fn(tree, path):
    """nested function lookup: ['SharedDataMiddleware', 'get_package_loader', 'loader']"""
    node = tree
    for name in path:
        found = [n for n in ast.walk(node) if isinstance(n, (ast.FunctionDef, ast.ClassDef)) and n.name == name and n is not node]
        if not found:
            raise RuntimeError("static glue: " + ".".join(path) + " not found")
        node = found[0]
    return node


def _glue_facts(fn, var):
    """(RHS texts of the assignments to `var`, callee names of every call) inside `fn`"""
    assigns, calls = [], []
    for n in ast.walk(fn):
        if isinstance(n, ast.Assign) and any(isinstance(t, ast.Name) and t.id == var for t in n.targets):
            assigns.append(ast.unparse(n.value))
        if isinstance(n, (ast.AugAssign, ast.AnnAssign)) and isinstance(n.target, ast.Name) and n.target.id == var:
            assigns.append(ast.unparse(n))
        if isinstance(n, ast.NamedExpr) and n.target.id == var:
            assigns.append(ast.unparse(n.value))
        if isinstance(n, ast.Call):
            calls.append(ast.unparse(n.func))
    return assigns, sorted(set(calls))


def _if_tests(node):
    """tests of every `if` (statement or expression) under `node`, in source order"""
    out = []
    for n in ast.walk(node):
        if isinstance(n, (ast.If, ast.IfExp)):
            out.append((n.lineno, n.col_offset, ast.unparse(n.test)))
    return [t for _l, _c, t in sorted(out)]


def _call_args(node, callee):
    """argument texts of every call of `callee` under `node`, in source order"""
    out = []
    for n in ast.walk(node):
        if isinstance(n, ast.Call) and ast.unparse(n.func) == callee:
            args = [ast.unparse(a) for a in n.args] + [(f"{k.arg}=" if k.arg else "**") + ast.unparse(k.value) for k in n.keywords]
            out.append((n.lineno, n.col_offset, ", ".join(args)))
    return [t for _l, _c, t in sorted(out)]


def _returns(fn):
    """texts of the values returned by `fn` itself (nested lambdas / defs excluded), in source order"""
    out = []

    def visit(n):
        for ch in ast.iter_child_nodes(n):
            if isinstance(ch, (ast.FunctionDef, ast.Lambda)):
                continue
            if isinstance(ch, ast.Return):
                v = ch.value
                if isinstance(v, ast.Tuple) and len(v.elts) == 2:
                    # only the *first* element (real_filename) and the opener's argument matter here
                    second = v.elts[1]
                    txt = ast.unparse(v.elts[0]) + " | " + (ast.unparse(second) if not isinstance(second, ast.Lambda) else "<lambda>")
                else:
                    txt = ast.unparse(v) if v is not None else "None"
                out.append((ch.lineno, txt))
            visit(ch)

    visit(fn)
    return [t for _l, t in sorted(out)]


def _str_list(name, doc, items, per_line=1):
    return f"/-- {doc} -/\ndef {name} : List String := {lean_list([lean_str(a) for a in items], per_line)}\n"


@generator("StaticGlue")
def gen_static_glue():
    """AST facts about the static-file helpers: what is assigned to the joined path after safe_join,
    which functions are called at all (no decoding / rewriting behind the containment check), and the
    shape of the export loop of SharedDataMiddleware.__call__ / __init__ / the file loader / send_file"""
    utils = ast.parse(open(os.path.join(REPO, "src", "werkzeug", "utils.py")).read())
    sdm = ast.parse(open(os.path.join(REPO, "src", "werkzeug", "middleware", "shared_data.py")).read())
    dir_loader = _fn(sdm, ["SharedDataMiddleware", "get_directory_loader", "loader"])
    pkg_loader = _fn(sdm, ["SharedDataMiddleware", "get_package_loader", "loader"])
    facts = {
        "sfd": _glue_facts(_fn(utils, ["send_from_directory"]), "path_str"),
        "dirLoader": _glue_facts(dir_loader, "path"),
        "pkgLoader": _glue_facts(pkg_loader, "path"),
    }
    defs = []
    for k, (assigns, calls) in facts.items():
        defs.append(f"/-- right-hand sides assigned to the joined path variable -/\ndef {k}Assigns : List String := {lean_list([lean_str(a) for a in assigns], 1)}\n")
        defs.append(f"/-- every function called in the body -/\ndef {k}Calls : List String := {lean_list([lean_str(c) for c in calls], 1)}\n")

    # --- SharedDataMiddleware.__call__: the export loop
    call = _fn(sdm, ["SharedDataMiddleware", "__call__"])
    loops = [n for n in ast.walk(call) if isinstance(n, ast.For)]
    if len(loops) != 1:
        raise RuntimeError("SharedDataMiddleware.__call__: expected exactly one for loop")
    loop = loops[0]
    path_assigns, _ = _glue_facts(call, "path")
    search_assigns, _ = _glue_facts(call, "search_path")
    _, loop_calls = _glue_facts(loop, "path")
    gate = [ast.unparse(n.test) for n in call.body if isinstance(n, ast.If)]
    defs.append(_str_list("callPathAssigns", "`__call__`: right-hand sides assigned to `path` (the request path the exports are matched against)", path_assigns))
    defs.append(_str_list("callSearchAssigns", "`__call__`: assignments to `search_path` besides the loop target", search_assigns))
    defs.append(_str_list("callLoopHead", "`__call__`: target and iterable of the export loop", [ast.unparse(loop.target), ast.unparse(loop.iter)]))
    defs.append(_str_list("callLoopTests", "`__call__`: the `if` tests inside the export loop, in source order", _if_tests(loop)))
    defs.append(_str_list("callLoaderArgs", "`__call__`: arguments of the `loader(...)` calls, in source order", _call_args(loop, "loader")))
    defs.append(_str_list("callLoopCalls", "`__call__`: every function called inside the export loop", loop_calls))
    defs.append(_str_list("callGate", "`__call__`: the tests of the top-level `if` statements after the loop (first = fall through to the app)", gate[:1]))
    breaks = sum(isinstance(n, ast.Break) for n in ast.walk(loop))
    conts = sum(isinstance(n, ast.Continue) for n in ast.walk(loop))
    defs.append(f"/-- `__call__`: number of `break` / `continue` statements in the export loop -/\ndef callLoopBreaks : Nat := {breaks}\ndef callLoopContinues : Nat := {conts}\n")

    # --- loaders: what they return and what they open
    file_loader = _fn(sdm, ["SharedDataMiddleware", "get_file_loader"])
    defs.append(_str_list("fileLoaderReturns", "`get_file_loader`: the returned loader", _returns(file_loader)))
    defs.append(_str_list("dirLoaderReturns", "directory loader: `real_filename | opener` of every return", _returns(dir_loader)))
    defs.append(_str_list("pkgLoaderReturns", "package loader: `real_filename | opener` of every return", _returns(pkg_loader)))
    defs.append(_str_list("dirLoaderTests", "directory loader: `if` tests in source order", _if_tests(dir_loader)))
    defs.append(_str_list("pkgLoaderTests", "package loader: `if` tests in source order", _if_tests(pkg_loader)))
    defs.append(_str_list("pkgOpenArgs", "package loader: arguments of `reader.open_resource`", _call_args(pkg_loader, "reader.open_resource")))
    opener = _fn(sdm, ["SharedDataMiddleware", "_opener"])
    defs.append(_str_list("openerOpenArgs", "`_opener`: arguments of `open`", _call_args(opener, "open")))

    # --- __init__: which loader an export value gets
    init = _fn(sdm, ["SharedDataMiddleware", "__init__"])
    iloops = [n for n in ast.walk(init) if isinstance(n, ast.For)]
    if len(iloops) != 1:
        raise RuntimeError("SharedDataMiddleware.__init__: expected exactly one for loop")
    loader_assigns, _ = _glue_facts(iloops[0], "loader")
    exports_assigns, _ = _glue_facts(init, "exports")
    defs.append(_str_list("initLoopHead", "`__init__`: target and iterable of the exports loop", [ast.unparse(iloops[0].target), ast.unparse(iloops[0].iter)]))
    defs.append(_str_list("initTests", "`__init__`: `if` tests of the exports loop, in source order", _if_tests(iloops[0])))
    defs.append(_str_list("initLoaderAssigns", "`__init__`: loaders assigned, in source order", loader_assigns))
    defs.append(_str_list("initExportsAssigns", "`__init__`: re-assignments of `exports`", exports_assigns))
    defs.append(_str_list("initAppendArgs", "`__init__`: what is appended to `self.exports`", _call_args(init, "self.exports.append")))
    defs.append(_str_list("initAllowed", "`__init__`: the `is_allowed` override installed by `disallow`", [ast.unparse(n.value) for n in ast.walk(init) if isinstance(n, ast.Assign) and ast.unparse(n.targets[0]) == "self.is_allowed"]))

    # --- send_from_directory / send_file: the `_root_path` joins and what is opened
    sfd = _fn(utils, ["send_from_directory"])
    send_file = _fn(utils, ["send_file"])
    sf_path_assigns, _ = _glue_facts(send_file, "path")
    defs.append(_str_list("sfdTests", "`send_from_directory`: `if` tests in source order", _if_tests(sfd)))
    defs.append(_str_list("sfdSendFileArgs", "`send_from_directory`: arguments of the final `send_file` call", _call_args(sfd, "send_file")))
    defs.append(_str_list("sendFilePathAssigns", "`send_file`: assignments to `path` (the file that is opened)", sf_path_assigns))
    defs.append(_str_list("sendFileOpenArgs", "`send_file`: arguments of `open`", _call_args(send_file, "open")))
    body = "namespace Wz.Gen.StaticGlue\n\n" + "\n".join(defs) + "\nend Wz.Gen.StaticGlue\n"
    return write("StaticGlue", body, "src/werkzeug/utils.py, src/werkzeug/middleware/shared_data.py")
