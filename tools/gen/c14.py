"""C14: constants that drive safe_join / secure_filename, taken from the live modules and the AST."""
import ast
import importlib
import os

from extract_lib import REPO, generator, lean_bool, lean_list, lean_str, write


def _strip_literal():
    """the literal argument of the `.strip(...)` call inside utils.secure_filename (AST)"""
    path = os.path.join(REPO, "src", "werkzeug", "utils.py")
    tree = ast.parse(open(path).read())
    fn = [n for n in ast.walk(tree) if isinstance(n, ast.FunctionDef) and n.name == "secure_filename"]
    if len(fn) != 1:
        raise RuntimeError("utils.secure_filename not found exactly once")
    lits = []
    joins = []
    for n in ast.walk(fn[0]):
        if isinstance(n, ast.Call) and isinstance(n.func, ast.Attribute):
            if n.func.attr == "strip":
                if len(n.args) != 1 or not isinstance(n.args[0], ast.Constant) or not isinstance(n.args[0].value, str):
                    raise RuntimeError("secure_filename: .strip() call without a single string literal")
                lits.append(n.args[0].value)
            if n.func.attr == "join" and isinstance(n.func.value, ast.Constant):
                joins.append(n.func.value.value)
    if len(lits) != 1 or len(joins) != 1:
        raise RuntimeError(f"secure_filename: expected one strip literal and one join literal, got {lits} {joins}")
    return lits[0], joins[0]


@generator("Paths")
def gen_paths():
    sec = importlib.import_module("werkzeug.security")
    utils = importlib.import_module("werkzeug.utils")
    alt = list(sec._os_alt_seps)
    if not all(isinstance(s, str) and len(s) == 1 for s in alt):
        raise RuntimeError("_os_alt_seps: expected single-character strings")
    rx = utils._filename_ascii_strip_re
    removed = [bool(rx.fullmatch(chr(c))) for c in range(128)]
    removed_high = all(rx.fullmatch(chr(c)) for c in range(128, 0x110000) if not 0xD800 <= c < 0xE000)
    seps = [s for s in (os.sep, os.path.altsep) if s]
    if not all(len(s) == 1 for s in seps):
        raise RuntimeError("os.sep / os.path.altsep: expected single characters")
    spaces = [c for c in range(0x110000) if chr(c).isspace()]
    strip_lit, join_lit = _strip_literal()
    body = f"""namespace Wz.Gen.Paths

/-- `werkzeug.security._os_alt_seps` (single characters; empty on POSIX). -/
def osAltSeps : List Char := {lean_list([f"Char.ofNat {ord(s)}" for s in alt]) if alt else "[]"}

/-- `os.sep, os.path.altsep` (the truthy ones), replaced by a space in `secure_filename`. -/
def osSeps : List Char := {lean_list([f"Char.ofNat {ord(s)}" for s in seps])}

/-- `os.name == "nt"` (the Windows device-file branch of `secure_filename`). -/
def osNameNt : Bool := {lean_bool(os.name == "nt")}

/-- `_filename_ascii_strip_re.fullmatch(chr c)` for c = 0..127: the characters *removed*. -/
def stripRe : List Bool := {lean_list([lean_bool(b) for b in removed])}

/-- does `_filename_ascii_strip_re` remove every code point above 0x7f? -/
def stripReHigh : Bool := {lean_bool(removed_high)}

/-- the literal passed to `.strip(...)` in `secure_filename` -/
def stripChars : List Char := {lean_str(strip_lit)}.toList

/-- the literal joining the whitespace-separated words in `secure_filename` -/
def joinChars : List Char := {lean_str(join_lit)}.toList

/-- code points for which `str.isspace()` holds (what `str.split()` splits on). -/
def pySpaces : List Nat := {lean_list([str(c) for c in spaces])}

end Wz.Gen.Paths
"""
    return write("Paths", body, "src/werkzeug/security.py, src/werkzeug/utils.py")


def _fn(tree, path):
    """nested function lookup: ['SharedDataMiddleware', 'get_package_loader', 'loader']"""
    node = tree
    for name in path:
        found = [n for n in ast.walk(node) if isinstance(n, (ast.FunctionDef, ast.ClassDef)) and n.name == name and n is not node]
        if not found:
            raise RuntimeError("static glue: " + ".".join(path) + " not found")
        node = found[0]
    return node


def _glue_facts(fn, var):
    """(RHS texts of the assignments to `var`, callee names of every call) inside `fn`"""
    assigns, calls = [], []
    for n in ast.walk(fn):
        if isinstance(n, ast.Assign) and any(isinstance(t, ast.Name) and t.id == var for t in n.targets):
            assigns.append(ast.unparse(n.value))
        if isinstance(n, (ast.AugAssign, ast.AnnAssign)) and isinstance(n.target, ast.Name) and n.target.id == var:
            assigns.append(ast.unparse(n))
        if isinstance(n, ast.NamedExpr) and n.target.id == var:
            assigns.append(ast.unparse(n.value))
        if isinstance(n, ast.Call):
            calls.append(ast.unparse(n.func))
    return assigns, sorted(set(calls))


@generator("StaticGlue")
def gen_static_glue():
    """AST facts about the static-file helpers: what is assigned to the joined path after safe_join,
    and which functions are called at all (no decoding / rewriting behind the containment check)"""
    utils = ast.parse(open(os.path.join(REPO, "src", "werkzeug", "utils.py")).read())
    sdm = ast.parse(open(os.path.join(REPO, "src", "werkzeug", "middleware", "shared_data.py")).read())
    facts = {
        "sfd": _glue_facts(_fn(utils, ["send_from_directory"]), "path_str"),
        "dirLoader": _glue_facts(_fn(sdm, ["SharedDataMiddleware", "get_directory_loader", "loader"]), "path"),
        "pkgLoader": _glue_facts(_fn(sdm, ["SharedDataMiddleware", "get_package_loader", "loader"]), "path"),
    }
    defs = []
    for k, (assigns, calls) in facts.items():
        defs.append(f"/-- right-hand sides assigned to the joined path variable -/\ndef {k}Assigns : List String := {lean_list([lean_str(a) for a in assigns], 1)}\n")
        defs.append(f"/-- every function called in the body -/\ndef {k}Calls : List String := {lean_list([lean_str(c) for c in calls], 1)}\n")
    body = "namespace Wz.Gen.StaticGlue\n\n" + "\n".join(defs) + "\nend Wz.Gen.StaticGlue\n"
    return write("StaticGlue", body, "src/werkzeug/utils.py, src/werkzeug/middleware/shared_data.py")
