"""C01/C10/C02 (form parsing): byte classes and constants of werkzeug.sansio.multipart taken from the
live compiled regexes of a MultipartDecoder instance, and the `safe=` literal of the urlencoders."""
import ast
import importlib
import os
import re

from extract_lib import REPO, generator, lean_bool, lean_bytes, lean_list, write


def _hws_tables(mp):
    """The byte class written `[^\\S\\n\\r]` in preamble_re / boundary_re, probed through the compiled
    patterns of a live decoder (4 occurrences). The probe `x SP x` between `--B` and the closing LF
    accepts exactly when x is in the class ('-', CR and LF cannot sneak in through another branch)."""
    dec = mp.MultipartDecoder(b"B")
    tabs = []
    for rx, lead in ((dec.preamble_re, b"--B"), (dec.boundary_re, b"\n--B")):
        for fin in (b"", b"--"):
            tabs.append([bool(rx.fullmatch(lead + fin + bytes([x]) + b" " + bytes([x]) + b"\n")) for x in range(256)])
    return dec, tabs


@generator("Multipart")
def gen_multipart():
    mp = importlib.import_module("werkzeug.sansio.multipart")
    dec, tabs = _hws_tables(mp)
    consistent = all(t == tabs[0] for t in tabs)
    sp_in = tabs[0][0x20]

    def flags(rx):
        return int(rx.flags & ~re.UNICODE)

    body = f"""namespace Wz.Gen.Multipart

/-- the class `[^\\S\\n\\r]` (horizontal whitespace) of the compiled `boundary_re` / `preamble_re`
of a live `MultipartDecoder(b"B")`, per byte 0..255 -/
def hws : List Bool := {lean_list([lean_bool(b) for b in tabs[0]])}

/-- do all four occurrences of the class (two regexes x two alternatives) agree, and is SP in it
(the probe uses SP as a known member)? -/
def hwsConsistent : Bool := {lean_bool(consistent and sp_in)}

/-- `SEARCH_EXTRA_LENGTH` -/
def searchExtraLength : Nat := {int(mp.SEARCH_EXTRA_LENGTH)}

/-- `MultipartDecoder(b"B").preamble_re.pattern` -/
def preamblePattern : List UInt8 := {lean_bytes(dec.preamble_re.pattern)}
/-- `MultipartDecoder(b"B").boundary_re.pattern` -/
def boundaryPattern : List UInt8 := {lean_bytes(dec.boundary_re.pattern)}
/-- `BLANK_LINE_RE.pattern` -/
def blankLinePattern : List UInt8 := {lean_bytes(mp.BLANK_LINE_RE.pattern)}
/-- `LINE_BREAK_RE.pattern` -/
def lineBreakPattern : List UInt8 := {lean_bytes(mp.LINE_BREAK_RE.pattern)}
/-- `HEADER_CONTINUATION_RE.pattern` -/
def headerContinuationPattern : List UInt8 := {lean_bytes(mp.HEADER_CONTINUATION_RE.pattern)}
/-- `re.escape` leaves every byte of an alphanumeric boundary alone and the patterns embed it
verbatim: pattern for boundary `B7x` = pattern for `B` with `B` replaced -/
def escapeVerbatim : Bool := {lean_bool(mp.MultipartDecoder(b"B7x").boundary_re.pattern == dec.boundary_re.pattern.replace(b"B", b"B7x") and mp.MultipartDecoder(b"B7x").preamble_re.pattern == dec.preamble_re.pattern.replace(b"B", b"B7x"))}
/-- flags of the five compiled patterns (re.MULTILINE = 8), in the order above -/
def patternFlags : List Nat := [{flags(dec.preamble_re)}, {flags(dec.boundary_re)}, {flags(mp.BLANK_LINE_RE)}, {flags(mp.LINE_BREAK_RE)}, {flags(mp.HEADER_CONTINUATION_RE)}]

end Wz.Gen.Multipart
"""
    return write("Multipart", body, "src/werkzeug/sansio/multipart.py")


def _safe_literals(path, funcs):
    """`safe=` string literals of calls to the given callee names, with the enclosing function"""
    src = open(path).read()
    tree = ast.parse(src)
    out = []

    class V(ast.NodeVisitor):
        def __init__(self):
            self.stack = []

        def visit_FunctionDef(self, node):
            self.stack.append(node.name)
            self.generic_visit(node)
            self.stack.pop()

        def visit_Call(self, node):
            f = node.func
            name = f.id if isinstance(f, ast.Name) else (f.attr if isinstance(f, ast.Attribute) else None)
            if name in funcs:
                for kw in node.keywords:
                    if kw.arg == "safe" and isinstance(kw.value, ast.Constant) and isinstance(kw.value.value, str):
                        out.append((".".join(self.stack) or "<module>", name, kw.value.value))
            self.generic_visit(node)

    V().visit(tree)
    return out


@generator("Urlencode")
def gen_urlencode():
    urls = importlib.import_module("werkzeug.urls")
    path = os.path.join(REPO, "src", "werkzeug", "urls.py")
    lits = _safe_literals(path, {"urlencode", "quote_plus"})
    enc = [s for (fn, callee, s) in lits if fn == "_urlencode"]
    safe = enc[0] if len(enc) == 1 else ""
    # behaviour probe of the live function: which ASCII characters does _urlencode leave alone?
    live = [urls._urlencode([(chr(c), "")]) == chr(c) + "=" for c in range(128)]
    import urllib.parse as up

    always = [up.quote_from_bytes(bytes([b]), safe="") == chr(b) for b in range(256)]
    body = f"""namespace Wz.Gen.Urlencode

/-- the `safe=` literal of the single `urlencode(...)` call inside `werkzeug.urls._urlencode`
(found by AST; the empty list when there is not exactly one such call) -/
def urlencodeSafe : List UInt8 := {lean_bytes(safe.encode("ascii", "replace"))}

/-- number of `urlencode`/`quote_plus` calls carrying a literal `safe=` inside `_urlencode` -/
def urlencodeSafeSites : Nat := {len(enc)}

/-- bytes that `urllib.parse.quote_from_bytes(..., safe="")` never escapes (`_ALWAYS_SAFE`) -/
def alwaysSafe : List Bool := {lean_list([lean_bool(b) for b in always])}

/-- live probe: `_urlencode([(chr(c), "")]) == chr(c) + "="` for c = 0..127 -/
def liveUnescaped : List Bool := {lean_list([lean_bool(b) for b in live])}

end Wz.Gen.Urlencode
"""
    return write("Urlencode", body, "src/werkzeug/urls.py")
