"""C01/C10/C02 (form parsing): byte classes and constants of werkzeug.sansio.multipart taken from the
live compiled regexes of a MultipartDecoder instance, and the `safe=` literal of the urlencoders."""
import ast
import importlib
import os
import re

from extract_lib import REPO, generator, lean_bool, lean_bytes, lean_list, write


def _hws_tables(mp):
    """The byte class written `[^\\S\\n\\r]` in preamble_re / boundary_re, probed through the compiled
    patterns of a live decoder (4 occurrences). The probe `x SP x` between `--B` and the closing LF
    accepts exactly when x is in the class ('-', CR and LF cannot sneak in through another branch)."""
    dec = mp.MultipartDecoder(b"B")
    tabs = []
    for rx, lead in ((dec.preamble_re, b"--B"), (dec.boundary_re, b"\n--B")):
        for fin in (b"", b"--"):
            tabs.append([bool(rx.fullmatch(lead + fin + bytes([x]) + b" " + bytes([x]) + b"\n")) for x in range(256)])
    return dec, tabs


def _lean_str(s):
    out = []
    for ch in s:
        o = ord(ch)
        if ch == '"':
            out.append('\\"')
        elif ch == "\\":
            out.append("\\\\")
        elif ch == "\n":
            out.append("\\n")
        elif 32 <= o < 127:
            out.append(ch)
        elif o < 256:
            out.append("\\x%02x" % o)
        else:
            out.append("\\u%04x" % o if o < 0x10000 else ch)
    return '"' + "".join(out) + '"'


def _method_body(mod, cls, name):
    """ast.unparse of the statements of a method (docstring dropped)"""
    import inspect

    tree = ast.parse(inspect.getsource(mod))
    for n in ast.walk(tree):
        if isinstance(n, ast.ClassDef) and n.name == cls:
            for f in n.body:
                if isinstance(f, ast.FunctionDef) and f.name == name:
                    body = f.body
                    if body and isinstance(body[0], ast.Expr) and isinstance(body[0].value, ast.Constant) and isinstance(body[0].value.value, str):
                        body = body[1:]
                    return [ast.unparse(st) for st in body]
    return []


def _parser_buffer_size():
    import inspect

    fp = importlib.import_module("werkzeug.formparser")
    return int(inspect.signature(fp.MultiPartParser.__init__).parameters["buffer_size"].default)


def _part_charsets():
    """(sorted members of the `ct_charset in {...}` set literal, string constants returned by get_part_charset)"""
    import inspect

    fp = importlib.import_module("werkzeug.formparser")
    tree = ast.parse(inspect.getsource(fp))
    sets, rets = [], []
    for n in ast.walk(tree):
        if isinstance(n, ast.FunctionDef) and n.name == "get_part_charset":
            for m in ast.walk(n):
                if isinstance(m, ast.Compare) and len(m.ops) == 1 and isinstance(m.ops[0], ast.In) and isinstance(m.comparators[0], ast.Set):
                    sets.append(sorted(e.value for e in m.comparators[0].elts if isinstance(e, ast.Constant)))
                if isinstance(m, ast.Return) and isinstance(m.value, ast.Constant) and isinstance(m.value.value, str):
                    rets.append(m.value.value)
    return (sets[0] if len(sets) == 1 else []), rets


@generator("Multipart")
def gen_multipart():
    mp = importlib.import_module("werkzeug.sansio.multipart")
    dec, tabs = _hws_tables(mp)
    consistent = all(t == tabs[0] for t in tabs)
    sp_in = tabs[0][0x20]

    def flags(rx):
        return int(rx.flags & ~re.UNICODE)

    body = f"""namespace Wz.Gen.Multipart

/-- the class `[^\\S\\n\\r]` (horizontal whitespace) of the compiled `boundary_re` / `preamble_re`
of a live `MultipartDecoder(b"B")`, per byte 0..255 -/
def hws : List Bool := {lean_list([lean_bool(b) for b in tabs[0]])}

/-- do all four occurrences of the class (two regexes x two alternatives) agree, and is SP in it
(the probe uses SP as a known member)? -/
def hwsConsistent : Bool := {lean_bool(consistent and sp_in)}

/-- `SEARCH_EXTRA_LENGTH` -/
def searchExtraLength : Nat := {int(mp.SEARCH_EXTRA_LENGTH)}

/-- `MultipartDecoder(b"B").preamble_re.pattern` -/
def preamblePattern : List UInt8 := {lean_bytes(dec.preamble_re.pattern)}
/-- `MultipartDecoder(b"B").boundary_re.pattern` -/
def boundaryPattern : List UInt8 := {lean_bytes(dec.boundary_re.pattern)}
/-- `BLANK_LINE_RE.pattern` -/
def blankLinePattern : List UInt8 := {lean_bytes(mp.BLANK_LINE_RE.pattern)}
/-- `LINE_BREAK_RE.pattern` -/
def lineBreakPattern : List UInt8 := {lean_bytes(mp.LINE_BREAK_RE.pattern)}
/-- `HEADER_CONTINUATION_RE.pattern` -/
def headerContinuationPattern : List UInt8 := {lean_bytes(mp.HEADER_CONTINUATION_RE.pattern)}
/-- `re.escape` leaves every byte of an alphanumeric boundary alone and the patterns embed it
verbatim: pattern for boundary `B7x` = pattern for `B` with `B` replaced -/
def escapeVerbatim : Bool := {lean_bool(mp.MultipartDecoder(b"B7x").boundary_re.pattern == dec.boundary_re.pattern.replace(b"B", b"B7x") and mp.MultipartDecoder(b"B7x").preamble_re.pattern == dec.preamble_re.pattern.replace(b"B", b"B7x"))}
/-- statements of `MultipartDecoder.receive_data` (ast.unparse, docstring dropped): `None` - and only
`None` - ends the input; any bytes object, the empty one included, is appended after the size check -/
def receiveDataStmts : List String := {lean_list([_lean_str(x) for x in _method_body(mp, "MultipartDecoder", "receive_data")], 1)}

/-- default `buffer_size` of `formparser.MultiPartParser.__init__` (what `FormDataParser._parse_multipart`
leaves in place) -/
def parserBufferSize : Nat := {_parser_buffer_size()}

/-- the set literal of admitted part charsets in `MultiPartParser.get_part_charset` (sorted), and the
charset it returns otherwise -/
def partCharsets : List String := {lean_list([_lean_str(x) for x in _part_charsets()[0]], 4)}
def partCharsetDefault : List String := {lean_list([_lean_str(x) for x in _part_charsets()[1]], 4)}

/-- flags of the five compiled patterns (re.MULTILINE = 8), in the order above -/
def patternFlags : List Nat := [{flags(dec.preamble_re)}, {flags(dec.boundary_re)}, {flags(mp.BLANK_LINE_RE)}, {flags(mp.LINE_BREAK_RE)}, {flags(mp.HEADER_CONTINUATION_RE)}]

end Wz.Gen.Multipart
"""
    return write("Multipart", body, "src/werkzeug/sansio/multipart.py")


def _safe_literals(path, funcs):
    """`safe=` string literals of calls to the given callee names, with the enclosing function"""
    src = open(path).read()
    tree = ast.parse(src)
    out = []

    class V(ast.NodeVisitor):
        def __init__(self):
            self.stack = []

        def visit_FunctionDef(self, node):
            self.stack.append(node.name)
            self.generic_visit(node)
            self.stack.pop()

        def visit_Call(self, node):
            f = node.func
            name = f.id if isinstance(f, ast.Name) else (f.attr if isinstance(f, ast.Attribute) else None)
            if name in funcs:
                for kw in node.keywords:
                    if kw.arg == "safe" and isinstance(kw.value, ast.Constant) and isinstance(kw.value.value, str):
                        out.append((".".join(self.stack) or "<module>", name, kw.value.value))
            self.generic_visit(node)

    V().visit(tree)
    return out


@generator("Urlencode")
def gen_urlencode():
    urls = importlib.import_module("werkzeug.urls")
    path = os.path.join(REPO, "src", "werkzeug", "urls.py")
    lits = _safe_literals(path, {"urlencode", "quote_plus"})
    enc = [s for (fn, callee, s) in lits if fn == "_urlencode"]
    safe = enc[0] if len(enc) == 1 else ""
    # behaviour probe of the live function: which ASCII characters does _urlencode leave alone?
    live = [urls._urlencode([(chr(c), "")]) == chr(c) + "=" for c in range(128)]
    import urllib.parse as up

    always = [up.quote_from_bytes(bytes([b]), safe="") == chr(b) for b in range(256)]
    body = f"""namespace Wz.Gen.Urlencode

/-- the `safe=` literal of the single `urlencode(...)` call inside `werkzeug.urls._urlencode`
(found by AST; the empty list when there is not exactly one such call) -/
def urlencodeSafe : List UInt8 := {lean_bytes(safe.encode("ascii", "replace"))}

/-- number of `urlencode`/`quote_plus` calls carrying a literal `safe=` inside `_urlencode` -/
def urlencodeSafeSites : Nat := {len(enc)}

/-- bytes that `urllib.parse.quote_from_bytes(..., safe="")` never escapes (`_ALWAYS_SAFE`) -/
def alwaysSafe : List Bool := {lean_list([lean_bool(b) for b in always])}

/-- live probe: `_urlencode([(chr(c), "")]) == chr(c) + "="` for c = 0..127 -/
def liveUnescaped : List Bool := {lean_list([lean_bool(b) for b in live])}

end Wz.Gen.Urlencode
"""
    return write("Urlencode", body, "src/werkzeug/urls.py")
