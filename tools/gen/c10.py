"""C10 (form limits): how the three limits travel from the `Request` object to the decoder, and the
statements of the request-level glue, taken from the source by AST.

* `limitPlumbing`: every call in wrappers/request.py and formparser.py that passes a keyword named after
  a limit, with the expression it passes;
* `limitAssignments`: every assignment (anywhere in those two files) whose target is an attribute or
  class variable named after a limit;
* the statements (ast.unparse, docstrings dropped) of the glue functions Model/FormLimitsRequest.lean
  mirrors: a source edit there changes the Lean term the obligation `request_glue_as_modelled` checks."""
import ast
import os

from extract_lib import REPO, generator, lean_list

LIMITS = {"max_form_memory_size", "max_content_length", "max_form_parts", "max_parts"}


def lean_str(s: str) -> str:
    out = []
    for ch in s:
        o = ord(ch)
        if ch == '"':
            out.append('\\"')
        elif ch == "\\":
            out.append("\\\\")
        elif ch == "\n":
            out.append("\\n")
        elif 32 <= o < 127:
            out.append(ch)
        elif o < 256:
            out.append("\\x%02x" % o)
        elif o < 0x10000:
            out.append("\\u%04x" % o)
        else:
            out.append(ch)
    return '"' + "".join(out) + '"'


def _functions(tree):
    """(qualified name, FunctionDef) for every function, methods as Class.name"""
    out = []

    def walk(node, prefix):
        for n in ast.iter_child_nodes(node):
            if isinstance(n, ast.ClassDef):
                walk(n, prefix + [n.name])
            elif isinstance(n, (ast.FunctionDef, ast.AsyncFunctionDef)):
                out.append((".".join(prefix + [n.name]), n))  # nested functions stay part of their parent

    walk(tree, [])
    return out


def _body(fn):
    body = fn.body
    if body and isinstance(body[0], ast.Expr) and isinstance(body[0].value, ast.Constant) and isinstance(body[0].value.value, str):
        body = body[1:]
    return [ast.unparse(st) for st in body]


def _plumbing(tree, fname):
    rows = []
    for qn, fn in _functions(tree):
        for n in ast.walk(fn):
            if isinstance(n, ast.Call):
                for kw in n.keywords:
                    if kw.arg in LIMITS:
                        rows.append((f"{fname}:{qn}", ast.unparse(n.func), kw.arg, ast.unparse(kw.value)))
    return rows


def _assignments(tree, fname):
    rows = []

    def target_name(t):
        if isinstance(t, ast.Attribute) and t.attr in LIMITS:
            return ast.unparse(t)
        if isinstance(t, ast.Name) and t.id in LIMITS:
            return t.id
        return None

    def visit(node, where, in_class):
        for n in ast.iter_child_nodes(node):
            if isinstance(n, ast.ClassDef):
                visit(n, where + [n.name], True)
                continue
            if isinstance(n, (ast.FunctionDef, ast.AsyncFunctionDef)):
                visit(n, where + [n.name], False)
                continue
            if isinstance(n, ast.Assign):
                for t in n.targets:
                    for tt in (t.elts if isinstance(t, ast.Tuple) else [t]):
                        name = target_name(tt)
                        # a plain name is a limit only as a class variable (locals / parameters are not)
                        if name is not None and (isinstance(tt, ast.Attribute) or in_class):
                            rows.append((f"{fname}:{'.'.join(where)}", name, ast.unparse(n.value)))
            elif isinstance(n, ast.AnnAssign) and n.value is not None:
                name = target_name(n.target)
                if name is not None and (isinstance(n.target, ast.Attribute) or in_class):
                    rows.append((f"{fname}:{'.'.join(where)}", name, ast.unparse(n.value)))
            elif isinstance(n, ast.AugAssign):
                name = target_name(n.target)
                if name is not None:
                    rows.append((f"{fname}:{'.'.join(where)}", name, "<aug> " + ast.unparse(n.value)))
            elif isinstance(n, ast.Call) and isinstance(n.func, ast.Name) and n.func.id in ("setattr", "delattr"):
                rows.append((f"{fname}:{'.'.join(where)}", n.func.id, ast.unparse(n)))
            visit(n, where, in_class and not isinstance(n, (ast.FunctionDef, ast.AsyncFunctionDef)))

    visit(tree, [], False)
    return rows


GLUE = [
    ("request", "Request.want_form_data_parsed", "wantFormDataParsed"),
    ("request", "Request.make_form_data_parser", "makeFormDataParser"),
    ("request", "Request._load_form_data", "loadFormData"),
    ("request", "Request._get_stream_for_parsing", "getStreamForParsing"),
    ("request", "Request.stream", "streamProperty"),
    ("request", "Request.data", "dataProperty"),
    ("request", "Request.get_data", "getData"),
    ("request", "Request.form", "formProperty"),
    ("request", "Request.files", "filesProperty"),
    ("formparser", "FormDataParser.__init__", "formDataParserInit"),
    ("formparser", "FormDataParser.parse", "formDataParserParse"),
    ("formparser", "FormDataParser._parse_multipart", "parseMultipart"),
    ("formparser", "FormDataParser._parse_urlencoded", "parseUrlencoded"),
    ("formparser", "_chunk_iter", "chunkIter"),
    ("formparser", "MultiPartParser.__init__", "multiPartParserInit"),
    ("formparser", "MultiPartParser.parse", "multiPartParserParse"),
]


@generator("FormGlue")
def gen_form_glue():
    from extract_lib import write

    paths = {
        "request": os.path.join(REPO, "src", "werkzeug", "wrappers", "request.py"),
        "formparser": os.path.join(REPO, "src", "werkzeug", "formparser.py"),
    }
    trees = {k: ast.parse(open(p).read()) for k, p in paths.items()}
    fns = {k: dict(_functions(t)) for k, t in trees.items()}
    plumbing = _plumbing(trees["request"], "request") + _plumbing(trees["formparser"], "formparser")
    assigns = _assignments(trees["request"], "request") + _assignments(trees["formparser"], "formparser")
    defs = []
    for mod, qn, lean_name in GLUE:
        fn = fns[mod].get(qn)
        body = _body(fn) if fn is not None else []
        defs.append(f"/-- statements of `{qn}` -/\ndef {lean_name} : List String := {lean_list([lean_str(s) for s in body], 1) if body else '[]'}\n")
    quad = lambda r: "(" + ", ".join(lean_str(x) for x in r) + ")"  # noqa: E731
    body = f"""namespace Wz.Gen.FormGlue

/-- every call that passes a keyword named after a limit: (file:function, callee, keyword, expression) -/
def limitPlumbing : List (String × String × String × String) := {lean_list([quad(r) for r in plumbing], 1) if plumbing else "[]"}

/-- every assignment to an attribute / class variable named after a limit, and every `setattr` /
`delattr` call: (file:scope, target, value) -/
def limitAssignments : List (String × String × String) := {lean_list([quad(r) for r in assigns], 1) if assigns else "[]"}

{chr(10).join(defs)}
end Wz.Gen.FormGlue
"""
    return write("FormGlue", body, "src/werkzeug/wrappers/request.py, src/werkzeug/formparser.py")
