"""C08: tables evaluated from the live container classes.

* `_token_chars` (used by `quote_header_value`, i.e. `HeaderSet.to_header`).
* Per `Immutable*` class: the mutator method names of its mutable base, found *behaviourally*
  (a method is a mutator when some call from a fixed battery of argument tuples changes a fresh
  populated instance of the base), and the subset of those names that the immutable class blocks
  (every battery call that mutated the base raises TypeError on the immutable instance and leaves
  it unchanged), together with the class in the MRO that supplies the attribute.
"""
import copy
import importlib

from extract_lib import generator, lean_list, lean_str, write

OPER = ["__setitem__", "__delitem__", "__iadd__", "__imul__", "__ior__"]
BATTERY = [
    (),
    ("a",),
    ("z",),
    (0,),
    (1,),
    (2,),
    ("1",),
    ("a", "9"),
    ("z", "9"),
    (0, "9"),
    (1, "9"),
    (0, ("z", "9")),
    ([("z", "9")],),
    ({"z": "9"},),
    (["9"],),
    ("a", ["9"]),
    ("z", ["9"]),
    (slice(0, 1),),
    (slice(0, 1), [("z", "9")]),
    (slice(0, 1), ["9"]),
]


def _raw(cls, n):
    for k in cls.__mro__:
        if n in k.__dict__:
            return k, k.__dict__[n]
    return None, None


def method_names(cls):
    out = []
    for n in dir(cls):
        if n.startswith("_") and n not in OPER:
            continue
        _, raw = _raw(cls, n)
        if isinstance(raw, (classmethod, staticmethod)) or not callable(getattr(cls, n)):
            continue
        out.append(n)
    return out


def base_mutators(make, snap, cls):
    res = {}
    for n in method_names(cls):
        for args in BATTERY:
            x = make()
            before = snap(x)
            try:
                getattr(x, n)(*copy.deepcopy(args))
            except Exception:  # noqa: BLE001
                pass
            if snap(x) != before:
                res.setdefault(n, []).append(args)
    return res


def blocked_names(make, snap, cls, muts):
    out = []
    owners = []
    for n in sorted(muts):
        ok = True
        for args in muts[n]:
            x = make()
            before = snap(x)
            try:
                getattr(x, n)(*copy.deepcopy(args))
                ok = False
            except TypeError:
                pass
            except Exception:  # noqa: BLE001
                ok = False
            if snap(x) != before:
                ok = False
        owner, _ = _raw(cls, n)
        owners.append((n, owner.__name__ if owner else "?"))
        if ok:
            out.append(n)
    return out, owners


def immutable_rows():
    ds = importlib.import_module("werkzeug.datastructures")
    st = importlib.import_module("werkzeug.datastructures.structures")

    def dsnap(x):
        return copy.deepcopy(list(dict.items(x)))

    rows = []

    def row(name, base_name, base_make, base_snap, base_cls, imm_make, imm_snap, imm_cls):
        muts = base_mutators(base_make, base_snap, base_cls)
        blocked, owners = blocked_names(imm_make, imm_snap, imm_cls, muts)
        rows.append((name, base_name, sorted(muts), blocked, owners))

    row("ImmutableList", "list", lambda: ["2", "1", "3"], list, list, lambda: ds.ImmutableList(["2", "1", "3"]), list, ds.ImmutableList)
    row("ImmutableDict", "dict", lambda: {"a": "1", "b": "2"}, dsnap, dict, lambda: ds.ImmutableDict({"a": "1", "b": "2"}), dsnap, ds.ImmutableDict)
    row(
        "ImmutableTypeConversionDict",
        "TypeConversionDict",
        lambda: st.TypeConversionDict({"a": "1", "b": "2"}),
        dsnap,
        st.TypeConversionDict,
        lambda: ds.ImmutableTypeConversionDict({"a": "1", "b": "2"}),
        dsnap,
        ds.ImmutableTypeConversionDict,
    )
    md = [("a", "1"), ("a", "2"), ("b", "3")]
    row("ImmutableMultiDict", "MultiDict", lambda: ds.MultiDict(md), dsnap, ds.MultiDict, lambda: ds.ImmutableMultiDict(md), dsnap, ds.ImmutableMultiDict)
    row(
        "CombinedMultiDict",
        "MultiDict",
        lambda: ds.MultiDict(md),
        dsnap,
        ds.MultiDict,
        lambda: ds.CombinedMultiDict([ds.MultiDict(md[:2]), ds.MultiDict(md[2:])]),
        lambda x: ([dsnap(d) for d in x.dicts], dsnap(x)),
        ds.CombinedMultiDict,
    )
    row(
        "EnvironHeaders",
        "Headers",
        lambda: ds.Headers([("a", "1"), ("A", "2"), ("b", "3")]),
        lambda x: list(x._list),
        ds.Headers,
        lambda: ds.EnvironHeaders({"HTTP_A": "1", "CONTENT_TYPE": "t", "HTTP_B": "2"}),
        lambda x: (dict(x.environ), list(x._list)),
        ds.EnvironHeaders,
    )
    return rows


@generator("Containers")
def gen_containers():
    http = importlib.import_module("werkzeug.http")
    toks = sorted(ord(c) for c in http._token_chars)
    rows = immutable_rows()

    def strs(l):
        return "[" + ", ".join(lean_str(s) for s in l) + "]"

    table = ",\n".join(f"  ({lean_str(n)}, {lean_str(b)}, {strs(m)},\n    {strs(bl)})" for n, b, m, bl, _ in rows)
    owners = ",\n".join("  (" + lean_str(n) + ", [" + ", ".join(f"({lean_str(a)}, {lean_str(o)})" for a, o in ow) + "])" for n, _, _, _, ow in rows)
    body = f"""namespace Wz.Gen.Containers

/-- code points of `werkzeug.http._token_chars` -/
def tokenChars : List Nat := {lean_list([str(c) for c in toks])}

/-- (immutable class, its mutable base, mutator names of the base, names among them that the
immutable class blocks with TypeError leaving the instance unchanged) - evaluated on live objects -/
def immTable : List (String × String × List String × List String) := [
{table}]

/-- which class in the MRO of the immutable class supplies each of those attributes -/
def immOwners : List (String × List (String × String)) := [
{owners}]

end Wz.Gen.Containers
"""
    return write("Containers", body, "src/werkzeug/datastructures/{structures,headers,mixins}.py, src/werkzeug/http.py (live objects)")
