"""Definitions regenerated from werkzeug's source by tools/py2lean.py: `Gen/PyFns_<topic>.lean`.

One file per property topic so that rebuilds stay local. Each generator lists the functions it
translates with their signature spec; a function outside py2lean's subset makes the generator
raise `Untranslatable`, which the check reports as a broken obligation (`<extract> ...`).
"""
import os
import sys

sys.path.insert(0, os.path.dirname(os.path.dirname(os.path.abspath(__file__))))
import py2lean  # noqa: E402
from extract_lib import REPO, generator, lean_str, write  # noqa: E402
from py2lean import BOOL, INT, STR, Fn, Opt, Spec, Tup, chain_matcher  # noqa: E402

HEAD = """import WzVerif.Util.PyPrelude
{imports}set_option linter.unusedVariables false
namespace Wz.Gen.PyFns_{topic}
open Wz

"""


def emit(topic, specs, imports=(), extra=""):
    parts = [extra] if extra else []
    srcs = []
    for sp in specs:
        try:
            parts.append(py2lean.translate(sp, REPO))
        except py2lean.Untranslatable as e:
            # fail loudly, but locally: the definition is left out, so exactly the obligations of
            # Props/C<NN>T that mention it break (the other theorems of the property, the model
            # driver and the streams keep running); the reason is recorded in the generated file
            msg = str(e).replace("-/", "- /")
            print(f"extract: PyFns_{topic}: `{sp.name}` is UNTRANSLATABLE: {msg}")
            parts.append(f"/- UNTRANSLATABLE by tools/py2lean.py: {msg}\n   The definition `{sp.name}` is therefore missing: every obligation that mentions it is broken. -/\n")
        s = "src/werkzeug/" + sp.module
        if s not in srcs:
            srcs.append(s)
    body = HEAD.format(topic=topic, imports="".join(f"import {i}\n" for i in imports)) + "\n".join(parts) + f"\nend Wz.Gen.PyFns_{topic}\n"
    return write(f"PyFns_{topic}", body, ", ".join(srcs) + " (tools/py2lean.py)")


def sig_matcher(call_name, module, qualname, drop=(), passthrough=()):
    """matcher for calls `call_name(...)` of the Python function `qualname` of `module`: the arguments
    are bound to the parameters of the *current source signature* the way Python binds them
    (positional, keyword, defaults - constants only); result: the argument nodes in parameter order,
    without the parameters named in `drop`. A parameter in `passthrough` must be given as the variable
    of the same name (e.g. `on_update=on_update`) and is dropped."""
    import ast

    def m(n):
        if not (isinstance(n, ast.Call) and py2lean.dotted(n.func) == call_name):
            return None
        tr = py2lean.Translator(Spec(module=module, qualname=qualname, name="_", params=[], result="Unit"), REPO)
        fn, is_method = tr.find_def()
        a = fn.args
        if a.vararg or a.kwarg or a.kwonlyargs:
            return None
        names = [x.arg for x in a.posonlyargs] + [x.arg for x in a.args]
        dfl = [None] * (len(names) - len(a.defaults)) + list(a.defaults)
        if is_method:
            names, dfl = names[1:], dfl[1:]
        if len(n.args) > len(names) or any(isinstance(x, ast.Starred) for x in n.args):
            return None
        bound = dict(zip(names, n.args))
        for kw in n.keywords:
            if kw.arg is None or kw.arg not in names or kw.arg in bound:
                return None
            bound[kw.arg] = kw.value
        out = []
        for nm, d in zip(names, dfl):
            if nm not in bound:
                if d is None or not isinstance(d, ast.Constant):
                    return None
                bound[nm] = d
            if nm in passthrough:
                v = bound[nm]
                if not ((isinstance(v, ast.Name) and v.id == nm) or (isinstance(v, ast.Constant) and v.value is None)):
                    return None
                continue
            if nm in drop:
                continue
            out.append(bound[nm])
        return out

    return m


def emit_parts(topic, parts_in, imports=()):
    """as `emit`, with hand-written glue text between groups of specs: `parts_in` is a list of
    strings (Lean text) and lists of Specs, in file order"""
    parts, srcs = [], []
    for part in parts_in:
        if isinstance(part, str):
            if part:
                parts.append(part)
            continue
        for sp in part:
            try:
                parts.append(py2lean.translate(sp, REPO))
            except py2lean.Untranslatable as e:
                msg = str(e).replace("-/", "- /")
                print(f"extract: PyFns_{topic}: `{sp.name}` is UNTRANSLATABLE: {msg}")
                parts.append(f"/- UNTRANSLATABLE by tools/py2lean.py: {msg}\n   The definition `{sp.name}` is therefore missing: every obligation that mentions it is broken. -/\n")
            s_ = "src/werkzeug/" + sp.module
            if s_ not in srcs:
                srcs.append(s_)
    body = HEAD.format(topic=topic, imports="".join(f"import {i}\n" for i in imports)) + "\n".join(parts) + f"\nend Wz.Gen.PyFns_{topic}\n"
    return write(f"PyFns_{topic}", body, ", ".join(srcs) + " (tools/py2lean.py)")


# --------------------------------------------------------------------------
# werkzeug._internal._plain_int (used by C09, C11)

PLAIN_INT = Spec(
    module="_internal.py",
    qualname="_plain_int",
    name="plain_int",
    params=[("value", "Str")],
    result="Int",
    raises=True,
)
PLAIN_INT_FN = Fn("Gen.PyFns_Internal.plain_int", [STR], INT, raises=("ValueError",))


def regex_const(module, name, lean):
    """pin the source of a module-level compiled regex the translation maps to a prelude matcher"""
    import importlib

    rx = getattr(importlib.import_module(module), name)
    return f"""/-- `{module}.{name}`: (pattern source, flags) - the translation maps its methods to a
hand-written matcher of the prelude, which is only right for this source -/
def {lean} : String × Nat := ({lean_str(rx.pattern)}, {int(rx.flags)})

"""


@generator("PyFns_Internal")
def gen_internal():
    return emit("Internal", [PLAIN_INT], extra=regex_const("werkzeug._internal", "_plain_int_re", "plainIntRe"))


# --------------------------------------------------------------------------
# C11: ranges

IS_BYTE_RANGE_VALID = Spec(
    module="http.py",
    qualname="is_byte_range_valid",
    name="is_byte_range_valid",
    params=[("start", "Option Int"), ("stop", "Option Int"), ("length", "Option Int")],
    result="Bool",
)


RANGE_FOR_LENGTH = Spec(
    module="datastructures/range.py",
    qualname="Range.range_for_length",
    name="range_for_length",
    params=[("self.units", "Str"), ("self.ranges", "List (Int × Option Int)"), ("length", "Option Int")],
    result="Option (Int × Int)",
    raises=True,  # self.ranges[0] raises IndexError for an empty list: proved impossible
    calls={"http.is_byte_range_valid": Fn("is_byte_range_valid", [Opt(INT), Opt(INT), Opt(INT)], BOOL)},
)


RANGES_TY = "List (Int × Option Int)"

RANGE_INIT = Spec(
    module="datastructures/range.py",
    qualname="Range.__init__",
    name="range_init",
    params=[("units", "Str"), ("ranges", RANGES_TY)],
    # the object is the pair of its two attributes
    fields=["units", "ranges"],
    result=f"Str × {RANGES_TY}",
    raises=True,  # ValueError for an invalid (start, end) pair
)

PARSE_RANGE_HEADER = Spec(
    module="http.py",
    qualname="parse_range_header",
    name="parse_range_header",
    params=[("value", "Option Str"), ("make_inclusive", "Bool")],
    locals={"[]#1": RANGES_TY},  # (locals by start value / position: #1 = ranges)
    result=f"Option (Str × {RANGES_TY})",
    raises=True,  # `units, rng = value.split("=", 1)` and `ds.Range(...)` can raise: proved impossible
    calls={
        "_plain_int": PLAIN_INT_FN,
        "ds.Range": Fn("range_init", [STR, py2lean.parse_ty(RANGES_TY)], py2lean.parse_ty(f"Str × {RANGES_TY}"), raises=("ValueError",)),
    },
)


UNQUOTE_ETAG = Spec(
    module="http.py",
    qualname="unquote_etag",
    name="unquote_etag",
    params=[("etag", "Option Str")],
    result="Option Str × Option Bool",
)


def _if_range_matcher(n):
    """`ds.IfRange()`, `ds.IfRange(<etag>)`, `ds.IfRange(date=<date>)` -> [etag, date]: the arguments
    of the translated `IfRange.__init__(etag=None, date=None)` (its parameter names and order are
    checked by the translator; the defaults `None` are filled in here)"""
    import ast

    if not (isinstance(n, ast.Call) and py2lean.dotted(n.func) == "ds.IfRange"):
        return None
    none = ast.Constant(value=None)
    if not n.args and not n.keywords:
        return [none, none]
    if len(n.args) == 1 and not n.keywords:
        return [n.args[0], none]
    if not n.args and len(n.keywords) == 1 and n.keywords[0].arg == "date":
        return [none, n.keywords[0].value]
    return None


IF_RANGE_INIT = Spec(
    module="datastructures/range.py",
    qualname="IfRange.__init__",
    name="if_range_init",
    # parameter names and order are checked against the source; both default to None
    params=[("etag", "Option Str"), ("date", "Option Int")],
    fields=["etag", "date"],
    result="Option Str × Option Int",
)

PARSE_IF_RANGE_HEADER = Spec(
    module="http.py",
    qualname="parse_if_range_header",
    name="parse_if_range_header",
    # parse_date stays opaque: text -> instant (as an integer) or None
    opaque=[("parse_date", "Pre.Str → Option Int")],
    params=[("value", "Option Str")],
    # the IfRange object = (etag, date)
    result="Option Str × Option Int",
    calls={
        "parse_date": Fn("parse_date", [STR], Opt(INT)),
        "unquote_etag": Fn("unquote_etag", [Opt(STR)], Tup(Opt(STR), Opt(BOOL))),
    },
    patterns=[(_if_range_matcher, Fn("if_range_init", [Opt(STR), Opt(INT)], Tup(Opt(STR), Opt(INT))))],
)


# --- entity tags: the ETags class (datastructures/etag.py), parse_etags, is_resource_modified

_OS = "Option Str"
ETAGS = py2lean.record("ETags", [("_strong", f"Set ({_OS})"), ("_weak", f"Set ({_OS})"), ("star_tag", "Bool")])
_SET_OS = py2lean.parse_ty(f"Set ({_OS})")
_LST_OS = py2lean.Lst(Opt(STR))


def _frozenset_call(n):
    """`frozenset(X)` -> [X]"""
    import ast

    if isinstance(n, ast.Call) and isinstance(n.func, ast.Name) and n.func.id == "frozenset" and len(n.args) == 1 and not n.keywords:
        return [n.args[0]]
    return None


def _frozenset_empty(n):
    import ast

    if isinstance(n, ast.Call) and isinstance(n.func, ast.Name) and n.func.id == "frozenset" and not n.args and not n.keywords:
        return []
    return None


_ETAG_MOD = "datastructures/etag.py"
ETAGS_INIT = Spec(
    module=_ETAG_MOD,
    qualname="ETags.__init__",
    name="etags_init",
    # tags are `str`; the element type is `str | None` because the groups of `_etag_re` are Optional
    # for the type checker (parse_etags hands them over unchanged)
    params=[("strong_etags", f"Option (List ({_OS}))"), ("weak_etags", f"Option (List ({_OS}))"), ("star_tag", "Bool")],
    fields=["_strong", "_weak", "star_tag"],
    result="ETags",
    patterns=[
        (_frozenset_call, Fn("Pre.frozenset", [_LST_OS], _SET_OS)),
        (_frozenset_empty, Fn("Pre.frozensetEmpty", [], _SET_OS)),
    ],
)
_ES = [("self._strong", f"Set ({_OS})")]
_EW = [("self._weak", f"Set ({_OS})")]
_ET = [("self.star_tag", "Bool")]
ETAGS_IS_WEAK = Spec(module=_ETAG_MOD, qualname="ETags.is_weak", name="etags_is_weak", params=_EW + [("etag", "Str")], result="Bool")
ETAGS_IS_STRONG = Spec(module=_ETAG_MOD, qualname="ETags.is_strong", name="etags_is_strong", params=_ES + [("etag", "Str")], result="Bool")
ETAGS_CONTAINS = Spec(
    module=_ETAG_MOD, qualname="ETags.contains", name="etags_contains", params=_ES + _ET + [("etag", "Str")], result="Bool",
    calls={"self.is_strong": Fn("etags_is_strong", [STR], BOOL, extra=("self__strong",))},
)
ETAGS_CONTAINS_WEAK = Spec(
    module=_ETAG_MOD, qualname="ETags.contains_weak", name="etags_contains_weak", params=_ES + _EW + _ET + [("etag", "Str")], result="Bool",
    calls={
        "self.is_weak": Fn("etags_is_weak", [STR], BOOL, extra=("self__weak",)),
        "self.contains": Fn("etags_contains", [STR], BOOL, extra=("self__strong", "self_star_tag")),
    },
)
ETAGS_BOOL = Spec(module=_ETAG_MOD, qualname="ETags.__bool__", name="etags_bool", params=_ES + _EW + _ET, result="Bool")
ETAGS_TO_HEADER = Spec(
    module=_ETAG_MOD, qualname="ETags.to_header", name="etags_to_header",
    # printing needs the tags as `str`
    params=[("self._strong", "Set Str"), ("self._weak", "Set Str"), ("self.star_tag", "Bool")], result="Str",
)
_ETAGS_METHODS = {
    ("Rec:ETags", "contains"): Fn("etags_contains", [STR], BOOL, recv_fields=("_strong", "star_tag")),
    ("Rec:ETags", "contains_weak"): Fn("etags_contains_weak", [STR], BOOL, recv_fields=("_strong", "_weak", "star_tag")),
    ("Rec:ETags", "__bool__"): Fn("etags_bool", [], BOOL, recv_fields=("_strong", "_weak", "star_tag")),
}

_G3 = Tup(Opt(STR), Opt(STR), Opt(STR))
_M3 = Tup(_G3, INT)
PARSE_ETAGS = Spec(
    canon_loop_order=True,
    module="http.py",
    qualname="parse_etags",
    name="parse_etags",
    params=[("value", "Option Str")],
    locals={"[]#1": f"List ({_OS})", "[]#2": f"List ({_OS})"},  # (locals by start value / position: #1 = strong, #2 = weak)
    result="ETags",
    raises=True,  # only the fuel marker of the while loop
    # `_etag_re.match(value, pos)`: C06's hand model of the regex (`Http.etagMatch`, validated by the
    # stream codec-pairs); a match object = (its three groups, its end position)
    calls={"_etag_re.match": Fn("etagReMatch", [STR, INT], Opt(_M3))},
    methods={("Tup", "groups"): Fn("Prod.fst", [_M3], _G3), ("Tup", "end"): Fn("Prod.snd", [_M3], INT)},
    patterns=[(sig_matcher("ds.ETags", _ETAG_MOD, "ETags.__init__"), Fn("etags_init", [Opt(_LST_OS), Opt(_LST_OS), BOOL], ETAGS))],
)


# is_resource_modified (sansio/http.py): instants are an abstract type τ (always true as objects,
# ordered by `dle`); the parsers it calls are parameters
IFRANGE = py2lean.record("IfRange", [("etag", "Option Str"), ("date", py2lean.Opt(py2lean.Abs("τ")))])
py2lean.ABSTRACT_TYPES.add("τ")
_TAU = py2lean.Abs("τ")


def _dt_as_utc_replace(n):
    """`_dt_as_utc(X.replace(microsecond=0))` -> [X]"""
    import ast

    if isinstance(n, ast.Call) and isinstance(n.func, ast.Name) and n.func.id == "_dt_as_utc" and len(n.args) == 1 and not n.keywords:
        c = n.args[0]
        if isinstance(c, ast.Call) and isinstance(c.func, ast.Attribute) and c.func.attr == "replace" and not c.args and len(c.keywords) == 1:
            kw = c.keywords[0]
            if kw.arg == "microsecond" and isinstance(kw.value, ast.Constant) and kw.value.value == 0 and type(kw.value.value) is int:
                return [c.func.value]
    return None


IS_RESOURCE_MODIFIED = Spec(
    module="sansio/http.py",
    qualname="is_resource_modified",
    name="is_resource_modified",
    type_params=["τ"],
    orders={"τ": "dle"},
    truthy_types=["τ"],
    opaque=[
        ("dle", "τ → τ → Bool"),
        # `_dt_as_utc(d.replace(microsecond=0))`
        ("dropMicro", "τ → τ"),
        ("parse_date", "Option Pre.Str → Option τ"),
        ("parse_if_range_header", "Option Pre.Str → (Option Pre.Str × Option τ)"),
        ("parse_etags", "Option Pre.Str → (List (Option Pre.Str) × List (Option Pre.Str) × Bool)"),
    ],
    params=[
        ("http_range", "Option Str"), ("http_if_range", "Option Str"), ("http_if_modified_since", "Option Str"),
        ("http_if_none_match", "Option Str"), ("http_if_match", "Option Str"), ("etag", "Option Str"),
        # `data` (bytes to hash into an etag) is restricted to None; `last_modified` to a datetime or None
        ("data", "Unit"), ("last_modified", "Option τ"), ("ignore_if_range", "Bool"),
    ],
    result="Bool",
    raises=True,  # TypeError arms for `unquote_etag(...)[0]` being None: proved unreachable
    static={"isinstance(last_modified, str)": False},
    calls={
        "parse_date": Fn("parse_date", [Opt(STR)], Opt(_TAU)),
        "parse_if_range_header": Fn("parse_if_range_header", [Opt(STR)], IFRANGE),
        "parse_etags": Fn("parse_etags", [Opt(STR)], ETAGS),
        "unquote_etag": Fn("Gen.PyFns_Range.unquote_etag", [Opt(STR)], Tup(Opt(STR), Opt(BOOL))),
    },
    methods=_ETAGS_METHODS,
    patterns=[(_dt_as_utc_replace, Fn("dropMicro", [_TAU], _TAU))],
)


@generator("PyFns_Etag")
def gen_etag():
    import importlib

    rx = importlib.import_module("werkzeug.http")._etag_re
    extra = f"""/-- `werkzeug.http._etag_re`: (pattern source, flags) - `etagReMatch` below is only right for this source -/
def etagRe : String × Nat := ({lean_str(rx.pattern)}, {int(rx.flags)})

/-- `_etag_re.match(value, pos)` through C06's hand model `Http.etagMatch` of the regex at the start
of the remaining text: the three groups (`([Ww]/)?`, the quoted tag, the raw tag) and `match.end()` -/
def etagReMatch (value : Pre.Str) (pos : Int) :
    Option ((Option Pre.Str × Option Pre.Str × Option Pre.Str) × Int) :=
  let s := value.drop pos.toNat
  (Wz.Http.etagMatch s).map fun m =>
    ((if m.1 then some (s.take 2) else none, m.2.1, m.2.2.1), (value.length : Int) - (m.2.2.2.length : Int))

"""
    return emit(
        "Etag",
        [ETAGS_INIT, ETAGS_IS_WEAK, ETAGS_IS_STRONG, ETAGS_CONTAINS, ETAGS_CONTAINS_WEAK, ETAGS_BOOL, ETAGS_TO_HEADER, PARSE_ETAGS, IS_RESOURCE_MODIFIED],
        imports=["WzVerif.Model.Http", "WzVerif.Gen.PyFns_Range"],
        extra=extra,
    )


@generator("PyFns_Range")
def gen_range():
    return emit("Range", [IS_BYTE_RANGE_VALID, RANGE_FOR_LENGTH, RANGE_INIT, PARSE_RANGE_HEADER, UNQUOTE_ETAG, IF_RANGE_INIT, PARSE_IF_RANGE_HEADER], imports=["WzVerif.Gen.PyFns_Internal"])


# --------------------------------------------------------------------------
# C20: trusted hosts

STRIP_PORT = Spec(
    module="sansio/utils.py",
    qualname="_strip_port",
    name="strip_port",
    params=[("host", "Str")],
    result="Str",
)

#: `X.encode("idna").decode("ascii")` is one opaque function `idna` (UnicodeError = any failure)
IDNA = Fn("idna", [STR], STR, raises=("UnicodeError",))

HOST_IS_TRUSTED = Spec(
    module="sansio/utils.py",
    qualname="host_is_trusted",
    name="host_is_trusted",
    opaque=[("idna", "Pre.Str → Except String Pre.Str")],
    params=[("hostname", "Option Str"), ("trusted_list", "List Str")],
    result="Bool",
    calls={"_strip_port": Fn("strip_port", [STR], STR)},
    patterns=[(chain_matcher(("encode", ("idna",)), ("decode", ("ascii",))), IDNA)],
)


GET_HOST = Spec(
    module="sansio/utils.py",
    qualname="get_host",
    name="get_host",
    opaque=[("idna", "Pre.Str → Except String Pre.Str")],
    params=[("scheme", "Str"), ("host_header", "Option Str"), ("server", "Option (Str × Option Int)"), ("trusted_hosts", "Option (List Str)")],
    result="Str",
    raises=True,  # SecurityError; host[0] raises IndexError on "": proved impossible
    calls={"host_is_trusted": Fn("host_is_trusted", [Opt(STR), py2lean.Lst(STR)], BOOL, extra=("idna",))},
)


@generator("PyFns_Host")
def gen_host():
    return emit("Host", [STRIP_PORT, HOST_IS_TRUSTED, GET_HOST])


# --- the debugger's PIN functions (debug/__init__.py)


def _src_matcher(text, nargs=0, args=()):
    """matcher for an expression whose source text (ast.unparse) is exactly `text` -> []; the text
    may contain metavariables `$x` (any name, see py2lean.template_match): `args` lists the
    metavariables whose names are handed to the Lean function as arguments, in this order"""
    import ast

    def m(n):
        if not isinstance(n, ast.expr):
            return None
        b = py2lean.template_match(text, n)
        if b is None:
            return None
        out = []
        for a in args:
            nm = ast.parse(a[1:], mode="eval").body if a.startswith("=") else ast.Name(id=b[a], ctx=ast.Load())
            ast.copy_location(nm, n)
            ast.fix_missing_locations(nm)
            out.append(nm)
        return out

    return m


_DBG = "debug/__init__.py"
CHECK_PIN_TRUST = Spec(
    module=_DBG,
    qualname="DebuggedApplication.check_pin_trust",
    name="check_pin_trust",
    # `parse_cookie(environ).get(self.pin_cookie_name)` is the parameter `cookie` (the value of the
    # PIN cookie or None); `hash_pin` and the freshness test `(time.time() - PIN_TIME) < ts` are parameters
    opaque=[("hash_pin", "Pre.Str → Pre.Str"), ("fresh", "Int → Bool"), ("cookie", "Option Pre.Str")],
    params=[("self.pin", "Option Str"), ("environ", "Unit")],
    # True / False / None
    result="Option Bool",
    raises=True,  # the two-way unpacking of `val.split("|", 1)`: proved impossible (guarded by `"|" in val`)
    calls={"hash_pin": Fn("hash_pin", [STR], STR), "int": Fn("Wz.Http.pyInt", [STR], INT, raises=("ValueError",))},
    patterns=[
        (_src_matcher("parse_cookie(environ).get(self.pin_cookie_name)"), Fn("cookie", [], Opt(STR))),
    ],
)


def _fresh_matcher(n):
    """`time.time() - PIN_TIME < X` -> [X]"""
    import ast

    if isinstance(n, ast.Compare) and len(n.ops) == 1 and isinstance(n.ops[0], ast.Lt) and ast.unparse(n.left) == "time.time() - PIN_TIME":
        return [n.comparators[0]]
    return None


CHECK_PIN_TRUST.patterns.append((_fresh_matcher, Fn("fresh", [INT], BOOL)))

FAIL_PIN_AUTH = Spec(
    module=_DBG,
    qualname="DebuggedApplication._fail_pin_auth",
    name="fail_pin_auth",
    # the shared counter `multiprocessing.Value("B")` as an int attribute; the penalty sleep is
    # recorded in `slept` (True = a sleep happened) and `slept_long` (the 5 s one)
    params=[("self._failed_pin_auth.value", "Int"), ("self.slept", "Bool"), ("self.slept_long", "Bool")],
    state=["_failed_pin_auth.value", "slept", "slept_long"],
    result="Unit",
    with_noop=["self._failed_pin_auth.get_lock()"],
    effects={"time.sleep(5.0 if $c > 5 else 0.5)": [("self.slept", "True"), ("self.slept_long", "$c > 5")]},
)

_PIN_KEYS = ("self._failed_pin_auth.value", "self.slept", "self.slept_long")
PIN_AUTH = Spec(
    module=_DBG,
    qualname="DebuggedApplication.pin_auth",
    name="pin_auth",
    # parameters standing for what the method reads from its collaborators: `host_trusted` =
    # `self.check_host_trust(request.environ)`, `trust` = `self.check_pin_trust(request.environ)`,
    # `entered` = `request.args["pin"]` (KeyError when missing). The answer is the triple
    # (auth, exhausted, cookie action: 1 = set, 2 = deleted, 0 = untouched); None = SecurityError()
    opaque=[("host_trusted", "Bool"), ("trust", "Option Bool"), ("entered", "Except String Pre.Str")],
    params=[("self.pin", "Option Str"), ("self._failed_pin_auth.value", "Int"), ("self.slept", "Bool"), ("self.slept_long", "Bool"), ("request", "Unit")],
    state=["_failed_pin_auth.value", "slept", "slept_long"],
    result="Option (Bool × Bool × Int)",
    raises=True,
    calls={"self._fail_pin_auth": Fn("fail_pin_auth", [], py2lean.NONE, state=_PIN_KEYS)},
    # the two cookie statements are pinned by their exact source text; their modelled effect is the
    # third component of the answer
    effects={
        "$rv.set_cookie(self.pin_cookie_name, f'{int(time.time())}|{hash_pin($p)}', httponly=True, samesite='Strict', secure=request.is_secure)": [("$rv", "($rv[0], $rv[1], 1)")],
        "$rv.delete_cookie(self.pin_cookie_name)": [("$rv", "($rv[0], $rv[1], 2)")],
    },
    patterns=[
        (_src_matcher("self.check_host_trust(request.environ)"), Fn("host_trusted", [], BOOL)),
        (_src_matcher("self.check_pin_trust(request.environ)"), Fn("trust", [], Opt(BOOL))),
        (_src_matcher("request.args['pin']"), Fn("entered", [], STR, raises=("KeyError",))),
        (_src_matcher("SecurityError()"), Fn("none", [], Opt(Tup(BOOL, BOOL, INT)))),
        (_src_matcher("t.cast(str, self.pin)"), Fn("self_pin", [], Opt(STR))),
    ],
)


def _response_json(n):
    """`Response(json.dumps({"auth": A, "exhausted": E}), mimetype="application/json")` -> [A, E]"""
    import ast

    if not (isinstance(n, ast.Call) and isinstance(n.func, ast.Name) and n.func.id == "Response" and len(n.args) == 1 and len(n.keywords) == 1):
        return None
    kw = n.keywords[0]
    if not (kw.arg == "mimetype" and isinstance(kw.value, ast.Constant) and kw.value.value == "application/json"):
        return None
    j = n.args[0]
    if not (isinstance(j, ast.Call) and py2lean.dotted(j.func) == "json.dumps" and len(j.args) == 1 and not j.keywords and isinstance(j.args[0], ast.Dict)):
        return None
    d = j.args[0]
    keys = [k.value if isinstance(k, ast.Constant) else None for k in d.keys]
    if keys != ["auth", "exhausted"]:
        return None
    return list(d.values)


PIN_AUTH.patterns.insert(0, (_response_json, Fn("pinResponse", [BOOL, BOOL], Tup(BOOL, BOOL, INT))))

# DebuggedApplication.__call__: which handler answers. Everything read from the request / the object
# is a parameter; the handlers are the outcome codes 0 = the wrapped application, 1 = get_resource,
# 2 = pin_auth, 3 = log_pin_request, 4 = execute_command, 5 = display_console
_OSTRP = "Option Pre.Str"
DBG_CALL = Spec(
    module=_DBG,
    qualname="DebuggedApplication.__call__",
    name="debugger_dispatch",
    opaque=[
        ("arg_debugger", _OSTRP), ("arg_cmd", _OSTRP), ("arg_f", _OSTRP), ("arg_s", _OSTRP),
        ("frame_known", "Bool"), ("pin_trust", "Option Bool"), ("request_path", "Pre.Str"),
    ],
    params=[("self.secret", "Str"), ("self.evalex", "Bool"), ("self.console_path", "Option Str"), ("environ", "Unit"), ("start_response", "Unit")],
    result="Int",
    patterns=[
        (_src_matcher("Request(environ)"), Fn("()", [], py2lean.NONE)),
        (_src_matcher("self.debug_application"), Fn("0", [], INT)),
        (_src_matcher("$r.args.get('__debugger__')"), Fn("arg_debugger", [], Opt(STR))),
        (_src_matcher("$r.args.get('cmd')"), Fn("arg_cmd", [], Opt(STR))),
        (_src_matcher("$r.args.get('f')"), Fn("arg_f", [], Opt(STR))),
        (_src_matcher("$r.args.get('s')"), Fn("arg_s", [], Opt(STR))),
        # the frame object: only `is not None` is asked
        (_src_matcher("self.frames.get($r.args.get('frm', type=int))"), Fn("(if frame_known then some () else none)", [], Opt(py2lean.OBJ))),
        (_src_matcher("self.get_resource($r, $a)"), Fn("1", [], INT)),
        (_src_matcher("self.pin_auth($r)"), Fn("2", [], INT)),
        (_src_matcher("self.log_pin_request($r)"), Fn("3", [], INT)),
        (_src_matcher("self.execute_command($r, $c, $f)"), Fn("4", [], INT)),
        (_src_matcher("self.display_console($r)"), Fn("5", [], INT)),
        (_src_matcher("self.check_pin_trust(environ)"), Fn("pin_trust", [], Opt(BOOL))),
        (_src_matcher("$r.path"), Fn("request_path", [], STR)),
        (_src_matcher("response(environ, start_response)"), Fn("response", [], INT)),
    ],
)


@generator("PyFns_Debug")
def gen_debug():
    extra = """/-- the JSON answer of `pin_auth` as (auth, exhausted, cookie action: 0 = untouched) -/
def pinResponse (auth exhausted : Bool) : Bool × Bool × Int := (auth, exhausted, 0)

"""
    return emit("Debug", [CHECK_PIN_TRUST, FAIL_PIN_AUTH, PIN_AUTH, DBG_CALL], imports=["WzVerif.Model.Http"], extra=extra)


# --------------------------------------------------------------------------
# C14: paths

SAFE_JOIN = Spec(
    canon_empty=False,  # (predates the option: `filename != ""` stays `!(filename == [])`)
    module="security.py",
    qualname="safe_join",
    name="safe_join",
    # `_os_alt_seps` (a module constant computed from os.sep / os.path.altsep at import time) is a
    # parameter, as in the model's `safeJoinWith`; Props/C14T instantiates it with the regenerated value
    opaque=[("os_alt_seps", "List Pre.Str")],
    consts={"_os_alt_seps": ("os_alt_seps", "List Str")},
    params=[("directory", "Str"), ("*pathnames", "List Str")],
    result="Option Str",
    raises=True,  # posixpath.join(*parts) raises TypeError for an empty `parts`: proved impossible
    # os.path is posixpath on the platform the models are generated for (checked: `os_path_is_posixpath`)
    calls={"os.path.isabs": Fn("Wz.Paths.isabs", [STR], BOOL)},
)


def _call_matcher(dotted_name, lits_before=(), nargs=1):
    """matcher for `a.b.c(<literal args...>, X)` -> [X]"""
    import ast

    def m(n):
        if not (isinstance(n, ast.Call) and not n.keywords and py2lean.dotted(n.func) == dotted_name):
            return None
        if len(n.args) != len(lits_before) + nargs:
            return None
        for a, v in zip(n.args, lits_before):
            if not (isinstance(a, ast.Constant) and a.value == v and type(a.value) is type(v)):
                return None
        return list(n.args[len(lits_before):])

    return m


def secure_filename_spec():
    import os as _os

    return Spec(
        module="utils.py",
        qualname="secure_filename",
        name="secure_filename",
        opaque=[("nfkd", "Pre.Str → Pre.Str")],
        params=[("filename", "Str")],
        result="Str",
        patterns=[
            # unicodedata.normalize("NFKD", X): opaque
            (_call_matcher("unicodedata.normalize", ("NFKD",)), Fn("nfkd", [STR], STR)),
            # X.encode("ascii", "ignore").decode("ascii")
            (chain_matcher(("encode", ("ascii", "ignore")), ("decode", ("ascii",))), Fn("Pre.asciiIgnore", [STR], STR)),
            # _filename_ascii_strip_re.sub("", X): the regex is one character class, evaluated on every
            # code point into Gen.Paths.stripRe / stripReHigh by tools/gen/c14.py
            (_call_matcher("_filename_ascii_strip_re.sub", ("",)), Fn("filenameAsciiStripReSubEmpty", [STR], STR)),
        ],
        consts={"os.sep": ("osSep", "Str"), "os.path.altsep": ("osAltsep", "Option Str")},
        # decided at generation time and pinned by the obligation `windows_branch_dead`
        static={"os.name == 'nt'": _os.name == "nt"},
    )


# SharedDataMiddleware.__call__ up to the point where the file to serve is decided: loaders and the
# file-loader objects they return are abstract
py2lean.ABSTRACT_TYPES.update({"Ldr", "Fld"})
_LAM, _PHI = py2lean.Abs("Ldr"), py2lean.Abs("Fld")
SHARED_DATA_CALL = Spec(
    module="middleware/shared_data.py",
    qualname="SharedDataMiddleware.__call__",
    name="shared_data_select",
    type_params=["Ldr", "Fld"],
    truthy_types=["Fld"],
    opaque=[
        ("path_info", "Pre.Str"),  # get_path_info(environ)
        ("call_loader", "Ldr → Option Pre.Str → (Option Pre.Str × Option Fld)"),  # loader(path)
        ("is_allowed", "Pre.Str → Bool"),  # self.is_allowed(real_filename)
    ],
    params=[("self.exports", "List (Str × Ldr)"), ("environ", "Unit"), ("start_response", "Unit")],
    # None = the wrapped application is called; else the (real_filename, file_loader) that is served
    result="Option (Str × Fld)",
    raises=True,  # `self.is_allowed(real_filename)` with `real_filename` None would be a TypeError arm
    patterns=[
        (_src_matcher("get_path_info(environ)"), Fn("path_info", [], STR)),
        (_src_matcher("self.app(environ, start_response)"), Fn("none", [], Opt(Tup(STR, _PHI)))),
    ],
    calls={"self.is_allowed": Fn("is_allowed", [STR], BOOL)},
    callables={"Ldr": Fn("call_loader", [_LAM, Opt(STR)], Tup(Opt(STR), Opt(_PHI)))},
    locals={"None#1": "Option Fld"},  # (locals by start value / position: #2 = file_loader)
    maybe_unbound={"#5": "Option Str"},  # #5 = real_filename
    stop_at=("$g = mimetypes.guess_type($r)", "($r, #2)"),  # #2 = file_loader
)


@generator("PyFns_Paths")
def gen_paths():
    import os as _os
    import posixpath as _pp

    extra = f"""/-- `os.path is posixpath` on the platform this file was generated on (the translation maps
`os.path.isabs` to the model of `posixpath.isabs`) -/
def osPathIsPosixpath : Bool := {"true" if _os.path is _pp else "false"}

"""
    opt_str = lambda v: "none" if v is None else f"some {py2lean.lean_str_lit(v)}"  # noqa: E731
    extra += f"""/-- `os.sep` -/
def osSep : Pre.Str := {py2lean.lean_str_lit(_os.sep)}

/-- `os.path.altsep` -/
def osAltsep : Option Pre.Str := {opt_str(_os.path.altsep)}

/-- `os.name == "nt"` at generation time (decides the Windows device-file branch of `secure_filename`) -/
def osNameNt : Bool := {"true" if _os.name == "nt" else "false"}

/-- `_filename_ascii_strip_re.sub("", s)`: the regex is a single character class; `Wz.Paths.stripped`
is that class evaluated on every code point (`Gen/Paths.lean`, regenerated on every run) -/
def filenameAsciiStripReSubEmpty (s : Pre.Str) : Pre.Str := s.filter fun c => !Wz.Paths.stripped c

"""
    return emit("Paths", [SAFE_JOIN, secure_filename_spec(), SHARED_DATA_CALL], imports=["WzVerif.Model.Paths"], extra=extra)


# --------------------------------------------------------------------------
# C09: Content-Length

GET_CONTENT_LENGTH = Spec(
    module="sansio/utils.py",
    qualname="get_content_length",
    name="get_content_length",
    params=[("http_content_length", "Option Str"), ("http_transfer_encoding", "Option Str")],
    result="Option Int",
    calls={"_plain_int": PLAIN_INT_FN},
)


# --- LimitedStream (wsgi.py): the wrapped stream is the model's `LS.Under` (remaining data + a
# script of behaviours), threaded as state `self.u`; the caller's bytearray is handed back
_LS = "wsgi.py"
LS_IS_EXHAUSTED = Spec(module=_LS, qualname="LimitedStream.is_exhausted", name="ls_is_exhausted", params=[("self._pos", "Int"), ("self.limit", "Int")], result="Bool", decorators=["property"])
LS_ON_EXHAUSTED = Spec(module=_LS, qualname="LimitedStream.on_exhausted", name="ls_on_exhausted", params=[("self._limit_is_max", "Bool")], result="Unit", raises=True)
LS_ON_DISCONNECT = Spec(
    module=_LS, qualname="LimitedStream.on_disconnect", name="ls_on_disconnect",
    # `error: Exception | None`: only `is not None` is asked
    params=[("self._limit_is_max", "Bool"), ("error", "Option Obj")], result="Unit", raises=True,
)
LS_TELL = Spec(module=_LS, qualname="LimitedStream.tell", name="ls_tell", params=[("self._pos", "Int")], result="Int")
_LS_UNDER = [("self.u", "Wz.LS.Under")]
py2lean.ABSTRACT_TYPES.add("Wz.LS.Under")
_UNDER_TY = py2lean.Abs("Wz.LS.Under")
LS_READINTO = Spec(
    module=_LS,
    qualname="LimitedStream.readinto",
    name="ls_readinto",
    opaque=[("has_readinto", "Bool")],  # hasattr(self._stream, "readinto")
    params=[("self._pos", "Int"), ("self.limit", "Int"), ("self._limit_is_max", "Bool"), ("self.u", "Wz.LS.Under"), ("b", "Bytes")],
    state=["_pos", "u", "b"],
    result="Int",
    raises=True,
    static={"hasattr(self._stream, 'readinto')": None},
    locals={"~self._stream.readinto(b)": "Option Int"},  # (locals by position: #3 = out_size)
    calls={
        "self.on_exhausted": Fn("ls_on_exhausted", [], py2lean.NONE, raises=("RequestEntityTooLarge",), extra=("self__limit_is_max",)),
        "self._stream.read": Fn("underRead", [INT], py2lean.BYTES, raises=("OSError",), effect_key="self.u", error_keeps_state=True),
        "bytearray": Fn("Pre.bytearrayZeros", [INT], py2lean.BYTES),
    },
    patterns=[
        (_src_matcher("hasattr(self._stream, 'readinto')"), Fn("has_readinto", [], BOOL)),
        (_src_matcher("self.on_disconnect(error=e)"), Fn("ls_on_disconnect self__limit_is_max (some ())", [], py2lean.NONE, raises=("ClientDisconnected",))),
        (_src_matcher("self.on_disconnect()"), Fn("ls_on_disconnect self__limit_is_max none", [], py2lean.NONE, raises=("ClientDisconnected",))),
    ],
    # `out_size = self._stream.readinto(buf)`: the underlying call answers the count and the new
    # content of the buffer it was given (pinned by the exact source text of the two statements)
    effects={
        "$o = self._stream.readinto(b)": [("r_", "under_readinto(b)"), ("$o", "r_[0]"), ("b", "r_[1]")],
        "$o = self._stream.readinto($t)": [("r_", "under_readinto($t)"), ("$o", "r_[0]"), ("$t", "r_[1]")],
    },
)
LS_READINTO.calls["under_readinto"] = Fn("underReadinto", [py2lean.BYTES], Tup(Opt(INT), py2lean.BYTES), raises=("OSError",), effect_key="self.u", error_keeps_state=True)
del LS_READINTO.static["hasattr(self._stream, 'readinto')"]


_LS_KEYS = ("self._pos", "self.u")
_LS_COMMON = dict(
    module=_LS,
    capture_self=True,
    opaque=[("has_readinto", "Bool")],
    state=["_pos", "u"],
    raises=True,
)
_LS_PATTERNS = [
    (_src_matcher("self.is_exhausted"), Fn("ls_is_exhausted self__pos self_limit", [], BOOL)),
    (_src_matcher("bytearray()"), Fn("([] : Bytes)", [], py2lean.BYTES)),
]
LS_READALL = Spec(
    qualname="LimitedStream.readall",
    name="ls_readall",
    params=[("self._pos", "Int"), ("self.u", "Wz.LS.Under"), ("self.limit", "Int"), ("self._limit_is_max", "Bool")],
    result="Bytes",
    calls={
        "self.on_exhausted": Fn("ls_on_exhausted", [], py2lean.NONE, raises=("RequestEntityTooLarge",), extra=("self__limit_is_max",)),
        # `self.read(n)` = io.RawIOBase.read: a fresh n-byte buffer, `readinto`, truncation (CPython glue, below)
        "self.read": Fn("ls_raw_read has_readinto self_limit self__limit_is_max", [INT], py2lean.BYTES, raises=("RequestEntityTooLarge", "ClientDisconnected"), state=_LS_KEYS),
        "bytes": Fn("id", [py2lean.BYTES], py2lean.BYTES),
    },
    patterns=_LS_PATTERNS,
    **_LS_COMMON,
)
LS_EXHAUST = Spec(
    qualname="LimitedStream.exhaust",
    name="ls_exhaust",
    params=[("self._pos", "Int"), ("self.u", "Wz.LS.Under"), ("self.limit", "Int"), ("self._limit_is_max", "Bool")],
    result="Bytes",
    calls={"self.readall": Fn("ls_readall fuel has_readinto", [], py2lean.BYTES, raises=("RequestEntityTooLarge", "ClientDisconnected"), state=_LS_KEYS, suffix=("self_limit", "self__limit_is_max"))},
    patterns=_LS_PATTERNS,
    needs_fuel=True,
    **_LS_COMMON,
)


def _sansio_gcl(n):
    """`_sansio_utils.get_content_length(http_content_length=X, http_transfer_encoding=Y)` -> [X, Y]"""
    import ast

    if isinstance(n, ast.Call) and py2lean.dotted(n.func) == "_sansio_utils.get_content_length" and not n.args and sorted(k.arg for k in n.keywords) == ["http_content_length", "http_transfer_encoding"]:
        by = {k.arg: k.value for k in n.keywords}
        return [by["http_content_length"], by["http_transfer_encoding"]]
    return None


WSGI_GET_CONTENT_LENGTH = Spec(
    module=_LS,
    qualname="get_content_length",
    name="wsgi_get_content_length",
    # the text-valued entries of the WSGI environ
    params=[("environ", "Dict Str Str")],
    result="Option Int",
    patterns=[(_sansio_gcl, Fn("get_content_length", [Opt(STR), Opt(STR)], Opt(INT)))],
)
py2lean.ABSTRACT_TYPES.add("Wz.LS.Choice")
_CHOICE = py2lean.Abs("Wz.LS.Choice")


def _limited_stream_ctor(n):
    """`LimitedStream(stream, N)` / `LimitedStream(stream, N, is_max=B)` -> [N, B]"""
    import ast

    if isinstance(n, ast.Call) and isinstance(n.func, ast.Name) and n.func.id == "LimitedStream" and len(n.args) == 2 and isinstance(n.args[0], ast.Name):
        if not n.keywords:
            f = ast.Constant(value=False)
            ast.copy_location(f, n)
            return [n.args[1], f]
        if len(n.keywords) == 1 and n.keywords[0].arg == "is_max":
            return [n.args[1], n.keywords[0].value]
    return None


GET_INPUT_STREAM = Spec(
    module=_LS,
    qualname="get_input_stream",
    name="get_input_stream",
    # which stream is returned (the model's `LS.Choice`): `environ["wsgi.input"]` itself, `io.BytesIO()`, or a
    # `LimitedStream` with its limit and `is_max`; `"wsgi.input_terminated" in environ` is a parameter
    opaque=[("terminated", "Bool")],
    params=[("environ", "Dict Str Str"), ("safe_fallback", "Bool"), ("max_content_length", "Option Int")],
    result="Wz.LS.Choice",
    raises=True,
    calls={"get_content_length": Fn("wsgi_get_content_length", [py2lean.Dct(STR, STR)], Opt(INT))},
    patterns=[
        (_src_matcher("environ['wsgi.input']"), Fn("Wz.LS.Choice.raw", [], _CHOICE)),
        (_src_matcher("'wsgi.input_terminated' in environ"), Fn("terminated", [], BOOL)),
        (_src_matcher("io.BytesIO()"), Fn("Wz.LS.Choice.empty", [], _CHOICE)),
        (_limited_stream_ctor, Fn("choiceLimited", [INT, BOOL], _CHOICE)),
    ],
)
_CHOICE_GLUE = """/-- `LimitedStream(stream, limit, is_max)` as the model's choice (the limit is a natural number there) -/
def choiceLimited (limit : Int) (isMax : Bool) : Wz.LS.Choice := .limited limit.toNat isMax

"""


@generator("PyFns_Length")
def gen_length():
    extra = """/-- `self._stream.readinto(buf)` on the model's underlying stream: one call asking for `len(buf)`
bytes; answers the count and the buffer with the bytes written to its front, or raises (OSError /
ValueError) - the stream's state advances in both cases -/
def underReadinto (u : Wz.LS.Under) (buf : Bytes) : Except String (Option Int × Bytes) × Wz.LS.Under :=
  match u.call buf.length with
  | (.raised, u') => (.error "OSError", u')
  | (.got d, u') => (.ok (some (d.length : Int), d ++ buf.drop d.length), u')

/-- `self._stream.read(n)` on the model's underlying stream -/
def underRead (u : Wz.LS.Under) (n : Int) : Except String Bytes × Wz.LS.Under :=
  match u.call n.toNat with
  | (.raised, u') => (.error "OSError", u')
  | (.got d, u') => (.ok d, u')

"""
    glue = """/-- `io.RawIOBase.read(n)` for `n >= 0` (CPython's C implementation: `b = bytearray(n)`,
`n = self.readinto(b)`, `del b[n:]`, `return bytes(b)`) on top of the translated `readinto`; modelled,
not verified. State: `(_pos, u)` -/
def ls_raw_read (has_readinto : Bool) (self_limit : Int) (self__limit_is_max : Bool) (self__pos : Int) (self_u : Wz.LS.Under)
    (n : Int) : (Int × Wz.LS.Under) × Except String Bytes :=
  let r := ls_readinto has_readinto self__pos self_limit self__limit_is_max self_u (Pre.bytearrayZeros n)
  ((r.1.1, r.1.2.1), match r.2 with
    | .error e => .error e
    | .ok k => .ok (r.1.2.2.take k.toNat))

"""
    return emit_parts("Length", [[GET_CONTENT_LENGTH], extra, [LS_IS_EXHAUSTED, LS_ON_EXHAUSTED, LS_ON_DISCONNECT, LS_TELL, LS_READINTO], glue, [LS_READALL, LS_EXHAUST], _CHOICE_GLUE, [WSGI_GET_CONTENT_LENGTH, GET_INPUT_STREAM]], imports=["WzVerif.Gen.PyFns_Internal", "WzVerif.Model.LimitedStream"])


# --------------------------------------------------------------------------
# C06: header value quoting

QUOTE_HEADER_VALUE = Spec(
    module="http.py",
    qualname="quote_header_value",
    name="quote_header_value",
    # `value: t.Any` is restricted to str (as in the model); `str(value)` is then the identity
    params=[("value", "Str"), ("allow_token", "Bool")],
    result="Str",
    # `_token_chars` (a frozenset of characters) enters through its membership test, which
    # tools/gen/c06.py evaluates on every code point into Gen.Http.tokenTbl / tokenHigh
    consts={"_token_chars": ("Wz.Http.isToken", "CharSet")},
)

UNQUOTE_HEADER_VALUE = Spec(
    module="http.py",
    qualname="unquote_header_value",
    name="unquote_header_value",
    params=[("value", "Str")],
    result="Str",
    raises=True,  # value[0] / value[-1] raise IndexError on "": proved impossible (len guard)
)


RANGE_TO_HEADER = Spec(
    module="datastructures/range.py",
    qualname="Range.to_header",
    name="range_to_header",
    params=[("self.units", "Str"), ("self.ranges", RANGES_TY)],
    locals={"[]#1": "List Str"},  # (locals by start value / position: #1 = ranges)
    result="Str",
)


PARSE_LIST_HEADER = Spec(
    module="http.py",
    qualname="parse_list_header",
    name="parse_list_header",
    params=[("value", "Str")],
    locals={"[]#1": "List Str"},  # (locals by start value / position: #1 = result)
    result="List Str",
    raises=True,  # item[0] / item[-1] raise IndexError on "": proved impossible (len guard)
    # `urllib.request.parse_http_list` (imported as `_parse_list_header`) is C06's hand model
    # `parseHttpList`, validated against CPython by the stream `codec-pairs`
    calls={"_parse_list_header": Fn("Wz.Http.parseHttpList", [STR], py2lean.Lst(STR))},
)


_QHV = Fn("quote_header_value", [STR, BOOL], STR, defaults_from=("http.py", "quote_header_value"))
_OSTR = Opt(STR)
_DICT_OSTR = py2lean.Dct(STR, _OSTR)

DUMP_HEADER_LIST = Spec(
    module="http.py",
    qualname="dump_header",
    name="dump_header_list",
    # the non-dict branch: an iterable of `str` items
    params=[("iterable", "List Str")],
    locals={"[]#1": "List Str"},  # (locals by start value / position: #1 = items)
    result="Str",
    raises=True,
    calls={"quote_header_value": _QHV},
    doc="`dump_header(iterable)` of src/werkzeug/http.py for a list of `str`, translated by tools/py2lean.py",
)
DUMP_HEADER_DICT = Spec(
    module="http.py",
    qualname="dump_header",
    name="dump_header_dict",
    # the dict branch: values are `str` or None (`t.Any` restricted as in the model)
    params=[("iterable", "Dict Str (Option Str)")],
    locals={"[]#1": "List Str"},  # (locals by start value / position: #1 = items)
    result="Str",
    raises=True,  # key[-1] raises IndexError for an empty key
    calls={"quote_header_value": _QHV},
    doc="`dump_header(iterable)` of src/werkzeug/http.py for a dict with `str | None` values, translated by tools/py2lean.py",
)
DUMP_OPTIONS_HEADER = Spec(
    module="http.py",
    qualname="dump_options_header",
    name="dump_options_header",
    params=[("header", "Option Str"), ("options", "Dict Str (Option Str)")],
    locals={"[]#1": "List Str"},  # (locals by start value / position: #1 = segments)
    result="Str",
    raises=True,  # key[-1] raises IndexError for an empty key
    calls={"quote_header_value": _QHV},
)
QUOTE_ETAG = Spec(
    canon_find=True,
    module="http.py",
    qualname="quote_etag",
    name="quote_etag",
    params=[("etag", "Str"), ("weak", "Bool")],
    result="Str",
    raises=True,
)


def _header_set_ctor(n):
    """`ds.HeaderSet(X, on_update)` -> [X]: the object is represented by the `headers` argument of
    its constructor (None = no headers)"""
    import ast

    if isinstance(n, ast.Call) and py2lean.dotted(n.func) == "ds.HeaderSet" and len(n.args) == 2 and not n.keywords:
        if isinstance(n.args[1], ast.Name) and n.args[1].id == "on_update":
            return [n.args[0]]
    return None


PARSE_SET_HEADER = Spec(
    module="http.py",
    qualname="parse_set_header",
    name="parse_set_header",
    # `on_update` is only handed on to the HeaderSet constructor
    params=[("value", "Option Str"), ("on_update", "Unit")],
    result="Option (List Str)",
    raises=True,
    calls={"parse_list_header": Fn("parse_list_header", [STR], py2lean.Lst(STR), raises=("IndexError",))},
    patterns=[(_header_set_ctor, Fn("id", [Opt(py2lean.Lst(STR))], Opt(py2lean.Lst(STR))))],
)


@generator("PyFns_Http")
def gen_http():
    return emit(
        "Http",
        [QUOTE_HEADER_VALUE, UNQUOTE_HEADER_VALUE, IS_BYTE_RANGE_VALID, RANGE_TO_HEADER, PARSE_LIST_HEADER, DUMP_HEADER_LIST, DUMP_HEADER_DICT, DUMP_OPTIONS_HEADER, QUOTE_ETAG, PARSE_SET_HEADER],
        imports=["WzVerif.Model.Http"],
    )


# --------------------------------------------------------------------------
# C06 / C07: Age, Content-Range, CSP, dict headers


def _kw_call(dotted_name, kw):
    """matcher for `f(<kw>=X)` -> [X]"""
    import ast

    def m(n):
        if isinstance(n, ast.Call) and py2lean.dotted(n.func) == dotted_name and not n.args and len(n.keywords) == 1 and n.keywords[0].arg == kw:
            return [n.keywords[0].value]
        return None

    return m


PARSE_AGE = Spec(
    module="http.py",
    qualname="parse_age",
    name="parse_age",
    params=[("value", "Option Str")],
    # the timedelta is represented by its number of seconds
    result="Option Int",
    raises=True,
    # `int(str)` is C06's hand model `pyInt` (white space, sign, `_` separators; validated by the
    # stream `codec-pairs`), `timedelta(seconds=n)` raises OverflowError outside timedelta's range
    calls={"int": Fn("Wz.Http.pyInt", [STR], INT, raises=("ValueError",))},
    patterns=[(_kw_call("timedelta", "seconds"), Fn("timedeltaSeconds", [INT], INT, raises=("OverflowError",)))],
)
DUMP_AGE = Spec(
    module="http.py",
    qualname="dump_age",
    name="dump_age",
    # `age: timedelta | int | None` restricted to `int | None`
    params=[("age", "Option Int")],
    result="Option Str",
    raises=True,
    static={"isinstance(age, timedelta)": False},
    calls={"int": Fn("id", [INT], INT)},
)

_CR_TY = "Option Str × Option Int × Option Int × Option Int"
_OINT = Opt(INT)


def _content_range_ctor(n):
    """`ds.ContentRange(units, start, stop, length, on_update=on_update)` -> [units, start, stop, length]"""
    import ast

    if isinstance(n, ast.Call) and py2lean.dotted(n.func) == "ds.ContentRange" and len(n.args) == 4 and len(n.keywords) == 1:
        kw = n.keywords[0]
        if kw.arg == "on_update" and isinstance(kw.value, ast.Name) and kw.value.id == "on_update":
            return list(n.args)
    return None


PARSE_CONTENT_RANGE_HEADER = Spec(
    module="http.py",
    qualname="parse_content_range_header",
    name="parse_content_range_header",
    params=[("value", "Option Str"), ("on_update", "Unit")],
    # the ContentRange object = (units, start, stop, length), as `content_range_init` builds it
    result=f"Option ({_CR_TY})",
    raises=True,  # ContentRange.__init__ asserts is_byte_range_valid: proved impossible
    calls={
        "_plain_int": PLAIN_INT_FN,
        "is_byte_range_valid": Fn("is_byte_range_valid", [_OINT, _OINT, _OINT], BOOL),
    },
    patterns=[(_content_range_ctor, Fn("content_range_init", [_OSTR, _OINT, _OINT, _OINT], py2lean.parse_ty(_CR_TY), raises=("AssertionError",)))],
)

_CR_PARAMS = [("self._units", "Option Str"), ("self._start", "Option Int"), ("self._stop", "Option Int"), ("self._length", "Option Int"), ("self.notified", "Bool")]
_CR_KEYS = ("self._units", "self._start", "self._stop", "self._length", "self.notified")
_CR = dict(
    module="datastructures/range.py",
    static={"self.on_update is not None": True},
    effects={"self.on_update(self)": [("self.notified", "True")]},
)
CONTENT_RANGE_SET = Spec(
    qualname="ContentRange.set",
    name="content_range_set",
    params=_CR_PARAMS + [("start", "Option Int"), ("stop", "Option Int"), ("length", "Option Int"), ("units", "Option Str")],
    state=["_units", "_start", "_stop", "_length", "notified"],
    result="Unit",
    raises=True,
    calls={"http.is_byte_range_valid": Fn("is_byte_range_valid", [_OINT, _OINT, _OINT], BOOL)},
    **_CR,
)


def _cr_unset_call(n):
    """`self.set(None, None, units=None)` -> [None, None, <default of length>, None]"""
    import ast

    if isinstance(n, ast.Call) and py2lean.dotted(n.func) == "self.set" and len(n.args) == 2 and len(n.keywords) == 1 and n.keywords[0].arg == "units":
        return [n.args[0], n.args[1], ast.Constant(value=None), n.keywords[0].value]
    return None


CONTENT_RANGE_UNSET = Spec(
    qualname="ContentRange.unset",
    name="content_range_unset",
    params=_CR_PARAMS,
    state=["_units", "_start", "_stop", "_length", "notified"],
    result="Unit",
    raises=True,
    # (the arguments are bound to the parameters of the current `set` the way Python binds them)
    patterns=[(sig_matcher("self.set", "datastructures/range.py", "ContentRange.set"), Fn("content_range_set", [_OINT, _OINT, _OINT, _OSTR], py2lean.NONE, raises=("AssertionError",), state=_CR_KEYS))],
    **_CR,
)
CONTENT_RANGE_TO_HEADER = Spec(
    module="datastructures/range.py",
    qualname="ContentRange.to_header",
    name="content_range_to_header",
    params=[("self._units", "Option Str"), ("self._start", "Option Int"), ("self._stop", "Option Int"), ("self._length", "Option Int")],
    result="Str",
    raises=True,  # `self._stop - 1` is a TypeError for a start without a stop (excluded by `set`'s assertion)
)
CONTENT_RANGE_BOOL = Spec(
    module="datastructures/range.py",
    qualname="ContentRange.__bool__",
    name="content_range_bool",
    params=[("self._units", "Option Str")],
    result="Bool",
)


def _csp_ctor(n):
    """`cls(items, on_update)` / `cls((), on_update)` -> [items]"""
    import ast

    if isinstance(n, ast.Call) and isinstance(n.func, ast.Name) and n.func.id == "cls" and len(n.args) == 2 and not n.keywords:
        if isinstance(n.args[1], ast.Name) and n.args[1].id == "on_update":
            return [n.args[0]]
    return None


_SS = py2lean.Lst(Tup(STR, STR))
PARSE_CSP_HEADER = Spec(
    module="http.py",
    qualname="parse_csp_header",
    name="parse_csp_header",
    # `cls` (default ContentSecurityPolicy, a dict subclass built from the item list) and `on_update`
    # are only handed on: the result is the item list the constructor receives
    params=[("value", "Option Str"), ("on_update", "Unit"), ("cls", "Unit")],
    locals={"[]#1": "List (Str × Str)"},  # (locals by start value / position: #1 = items)
    result="List (Str × Str)",
    raises=True,
    static={"cls is None": False},
    patterns=[(_csp_ctor, Fn("id", [_SS], _SS))],
)
DUMP_CSP_HEADER = Spec(
    module="http.py",
    qualname="dump_csp_header",
    name="dump_csp_header",
    params=[("header", "Dict Str Str")],
    result="Str",
)


def _unquote_enc(n):
    """`unquote(X, encoding=E)` -> [X, E]"""
    import ast

    if isinstance(n, ast.Call) and isinstance(n.func, ast.Name) and n.func.id == "unquote" and len(n.args) == 1 and len(n.keywords) == 1 and n.keywords[0].arg == "encoding":
        return [n.args[0], n.keywords[0].value]
    return None


_UNQUOTE = Fn("unquoteEnc", [STR, STR], STR, raises=("LookupError",), partial_model=True)
_GROUPS2 = {("Tup", "groups"): Fn("id", [Tup(STR, STR)], Tup(STR, STR))}
PARSE_DICT_HEADER = Spec(
    module="http.py",
    qualname="parse_dict_header",
    name="parse_dict_header",
    params=[("value", "Str")],
    locals={"{}#1": "Dict Str (Option Str)"},  # (locals by start value / position: #1 = result)
    result="Dict Str (Option Str)",
    raises=True,
    calls={
        "parse_list_header": Fn("parse_list_header", [STR], py2lean.Lst(STR), raises=("IndexError",)),
        # `_charset_value_re.match(v)`: C06's hand model of the regex (shape pinned by
        # Props/C06 `regex_sources_pinned`): the two groups of a match
        "_charset_value_re.match": Fn("Wz.Http.charsetValue?", [STR], Opt(Tup(STR, STR))),
    },
    methods=_GROUPS2,
    patterns=[(_unquote_enc, _UNQUOTE)],
    join_in_loops=True,
)


def _cc_ctor(n):
    """`cls(X, on_update)` -> [X]"""
    return _csp_ctor(n)


PARSE_CACHE_CONTROL_HEADER = Spec(
    module="http.py",
    qualname="parse_cache_control_header",
    name="parse_cache_control_header",
    params=[("value", "Option Str"), ("on_update", "Unit"), ("cls", "Unit")],
    # the object is represented by the dict its constructor receives
    result="Dict Str (Option Str)",
    raises=True,
    static={"cls is None": False},
    calls={"parse_dict_header": Fn("parse_dict_header", [STR], _DICT_OSTR, raises=("IndexError", "LookupError"))},
    patterns=[(_cc_ctor, Fn("id", [_DICT_OSTR], _DICT_OSTR))],
)


def _pinned_body(module, qualname, expected):
    """the source text of a function body (docstring dropped) must be exactly `expected`"""
    import ast

    tr = py2lean.Translator(Spec(module=module, qualname=qualname, name="_", params=[], result="Unit"), REPO)
    fn, _ = tr.find_def()
    body = [st for st in fn.body if not (isinstance(st, ast.Expr) and isinstance(st.value, ast.Constant) and isinstance(st.value.value, str))]
    got = [ast.unparse(st) for st in body]
    sig = ast.unparse(fn.args)
    return got == expected[1] and sig == expected[0], (sig, got)


@generator("PyFns_HttpDict")
def gen_http_dict():
    ok, got = _pinned_body(
        "datastructures/range.py",
        "ContentRange.__init__",
        ("self, units: str | None, start: int | None, stop: int | None, length: int | None=None, on_update: cabc.Callable[[ContentRange], None] | None=None", ["self.on_update = on_update", "self.set(start, stop, length, units)"]),
    )
    extra = """open Wz.Gen.PyFns_Http

/-- `urllib.parse.unquote(value, encoding=enc)` (errors="replace") for the four encoding names
werkzeug lets through (C06's hand model `pctUnquote`); any other name is outside the model -/
def unquoteEnc (value enc : Pre.Str) : Except String Pre.Str :=
  if enc == "utf-8".toList then .ok (Wz.Http.pctUnquote .utf8 value)
  else if enc == "iso-8859-1".toList then .ok (Wz.Http.pctUnquote .latin1 value)
  else if enc == "ascii".toList || enc == "us-ascii".toList then .ok (Wz.Http.pctUnquote .ascii value)
  else .error "py2lean: unquote() with an encoding outside the modelled ones"

/-- `timedelta(seconds=n)` as its number of seconds: OverflowError outside `timedelta.min .. max`
(`Gen.Http.timedeltaMaxSeconds` is regenerated from the live class) -/
def timedeltaSeconds (n : Int) : Except String Int :=
  if n > (Gen.Http.timedeltaMaxSeconds : Int) || n < -(86400 * 999999999 : Int) then .error "OverflowError" else .ok n

"""
    specs = [PARSE_AGE, DUMP_AGE, CONTENT_RANGE_SET, CONTENT_RANGE_UNSET, CONTENT_RANGE_TO_HEADER, CONTENT_RANGE_BOOL]
    if ok:
        extra_cr = """/-- `ContentRange(units, start, stop, length, on_update)`: `__init__` is (pinned by the generator)
`self.on_update = on_update; self.set(start, stop, length, units)` - the object = its four
attributes after `set` on a fresh instance -/
def content_range_init (units : Option Pre.Str) (start stop length : Option Int) :
    Except String (Option Pre.Str × Option Int × Option Int × Option Int) :=
  let r := content_range_set none none none none false start stop length units
  match r.2 with
  | .error e => .error e
  | .ok _ => .ok (r.1.1, r.1.2.1, r.1.2.2.1, r.1.2.2.2.1)

"""
    else:
        extra_cr = f"/- UNTRANSLATABLE: ContentRange.__init__ is no longer `self.on_update = on_update; self.set(start, stop, length, units)`: {got} -/\n"
        print("extract: PyFns_HttpDict: ContentRange.__init__ changed:", got)
    return emit_parts("HttpDict", [extra, specs, extra_cr, [PARSE_CONTENT_RANGE_HEADER, PARSE_CSP_HEADER, DUMP_CSP_HEADER, PARSE_DICT_HEADER, PARSE_CACHE_CONTROL_HEADER]], imports=["WzVerif.Model.Http", "WzVerif.Gen.PyFns_Internal", "WzVerif.Gen.PyFns_Http"])


# --------------------------------------------------------------------------
# C06 / C02 / C07 / C17: parse_options_header (the scanner loop and the RFC 2231 pass)


def _method_matcher(method, lits=(), recv_name=None):
    """matcher for `X.method(<these literals>)` -> [X] (X a plain name; `recv_name` fixes it)"""
    import ast

    def m(n):
        if not (isinstance(n, ast.Call) and isinstance(n.func, ast.Attribute) and n.func.attr == method and not n.keywords):
            return None
        if not isinstance(n.func.value, ast.Name) or (recv_name is not None and n.func.value.id != recv_name):
            return None
        if len(n.args) != len(lits) or not all(isinstance(a, ast.Constant) and a.value == v and type(a.value) is type(v) for a, v in zip(n.args, lits)):
            return None
        return [n.func.value]

    return m


_KEYM = Tup(STR, INT)
PARSE_OPTIONS_HEADER = Spec(
    module="http.py",
    qualname="parse_options_header",
    name="parse_options_header",
    params=[("value", "Option Str")],
    locals={"[]#1": "List (Str × Str)", "{}#1": "Dict Str Str", "None#1": "Option Str", "None#2": "Option Str"},  # (locals by start value / position: #3 = parts, #9 = options, #10 = encoding, #11 = continued_encoding)
    result="Str × Dict Str Str",
    raises=True,
    retype=["m"],
    join_in_loops=True,
    calls={
        # the four compiled regexes through C06's hand models of them (their sources are pinned by
        # Props/C06 `regex_sources_pinned`); a match object = what the code reads from it
        "_parameter_key_re.match": Fn("parameterKeyReMatch", [STR], Opt(_KEYM)),  # (group(1), end())
        "_parameter_token_value_re.match": Fn("parameterTokenValueReMatch", [STR], Opt(STR)),  # group()
        "_charset_value_re.match": Fn("Wz.Http.charsetValue?", [STR], Opt(Tup(STR, STR))),  # groups()
        # (start(), ()): a match object is always true, whatever its start()
        "_continuation_re.search": Fn("continuationReSearch", [STR], Opt(Tup(INT, py2lean.OBJ))),
    },
    methods={("Tup", "groups"): Fn("id", [Tup(STR, STR)], Tup(STR, STR)), ("Tup", "start"): Fn("Prod.fst", [Tup(INT, py2lean.OBJ)], INT)},
    patterns=[
        (_method_matcher("group", (1,), "m"), Fn("Prod.fst", [_KEYM], STR)),
        (_method_matcher("end", (), "m"), Fn("Prod.snd", [_KEYM], INT)),
        (_method_matcher("group", (), "m"), Fn("id", [STR], STR)),
        (_unquote_enc, _UNQUOTE),
    ],
)


def _cls_call(n):
    """`cls(X)` -> [X]"""
    import ast

    if isinstance(n, ast.Call) and isinstance(n.func, ast.Name) and n.func.id == "cls" and len(n.args) == 1 and not n.keywords:
        return [n.args[0]]
    return None


py2lean.ABSTRACT_TYPES.add("κ")
_ITEMS_K = py2lean.Lst(Tup(STR, py2lean.Abs("κ")))
PARSE_ACCEPT_HEADER = Spec(
    module="http.py",
    qualname="parse_accept_header",
    name="parse_accept_header",
    type_params=["κ"],
    # qualities are an abstract ordered type: `float(q_str)` and the literals 0 / 1 are parameters;
    # `cls(result)` / `cls(None)`: the result is the argument handed to the Accept class
    opaque=[("qle", "κ → κ → Bool"), ("qzero", "κ"), ("qone", "κ"), ("float_of", "Pre.Str → κ")],
    orders={"κ": "qle"},
    abs_lits={("κ", 0): "qzero", ("κ", 1): "qone"},
    params=[("value", "Option Str"), ("cls", "Unit")],
    locals={"[]#1": "List (Str × κ)", "~float($s)": "κ"},  # (locals by start value / position: #1 = result, #5 = q)
    result="Option (List (Str × κ))",
    raises=True,
    needs_fuel=True,
    static={"cls is None": False},
    calls={
        "parse_list_header": Fn("Gen.PyFns_Http.parse_list_header", [STR], py2lean.Lst(STR), raises=("IndexError",)),
        "parse_options_header": Fn("parse_options_header", [Opt(STR)], Tup(STR, py2lean.Dct(STR, STR)), raises=("IndexError", "TypeError", "LookupError"), extra=("fuel",)),
        # `_q_value_re.fullmatch(q_str)`: C06's hand model `qParts?` of `-?\d+(\.\d+)?` under re.ASCII
        "_q_value_re.fullmatch": Fn("qValueReFullmatch", [STR], Opt(py2lean.OBJ)),
        "float": Fn("float_of", [STR], py2lean.Abs("κ")),
        "dump_options_header": Fn("Gen.PyFns_Http.dump_options_header", [Opt(STR), _DICT_OSTR], STR, raises=("IndexError",)),
    },
    patterns=[(_cls_call, Fn("id", [Opt(_ITEMS_K)], Opt(_ITEMS_K)))],
    retype=["item"],
)


@generator("PyFns_HttpOptions")
def gen_http_options():
    extra = """open Wz.Gen.PyFns_Http Wz.Gen.PyFns_HttpDict

/-- `_parameter_key_re.match(rest)` (`([\\w!#$%&'*+\\-.^`|~]+)=` under re.ASCII) through C06's character
class `isKeyCh`: `(group(1), end())` -/
def parameterKeyReMatch (rest : Pre.Str) : Option (Pre.Str × Int) :=
  let key := rest.takeWhile Wz.Http.isKeyCh
  match key.isEmpty, rest.dropWhile Wz.Http.isKeyCh with
  | false, '=' :: _ => some (key, (key.length : Int) + 1)
  | _, _ => none

/-- `_parameter_token_value_re.match(rest)` through C06's character class `isTokValCh`: `group()` -/
def parameterTokenValueReMatch (rest : Pre.Str) : Option Pre.Str :=
  let tv := rest.takeWhile Wz.Http.isTokValCh
  if tv.isEmpty then none else some tv

/-- `_continuation_re.search(pk)` (`\\*(\\d+)$` under re.ASCII) through C06's `continuation?`: the match
object as `(start(), ())` - a match object is always true -/
def continuationReSearch (pk : Pre.Str) : Option (Int × Unit) :=
  (Wz.Http.continuation? pk).map fun base => ((base.length : Int), ())

"""
    extra += """/-- `_q_value_re.fullmatch(s)` through C06's hand model `qParts?`: `some ()` = a match object -/
def qValueReFullmatch (s : Pre.Str) : Option Unit := (Wz.Http.qParts? s).map fun _ => ()

"""
    return emit("HttpOptions", [PARSE_OPTIONS_HEADER, PARSE_ACCEPT_HEADER], imports=["WzVerif.Model.Http", "WzVerif.Gen.PyFns_Http", "WzVerif.Gen.PyFns_HttpDict"], extra=extra)


# --------------------------------------------------------------------------
# C05 / C11: response glue (sansio/response.py, wrappers/response.py)

_RESP = "wrappers/response.py"
CLEAN_STATUS_STR = Spec(
    module="sansio/response.py",
    qualname="Response._clean_status",
    name="clean_status_str",
    # the `str` branch of `value: str | int | HTTPStatus`
    opaque=[("status_phrase", "Int → Option Pre.Str")],
    params=[("value", "Str")],
    result="Str × Int",
    raises=True,
    # `int(code_str)`: the C16 views model's `pyInt` answers `none` for ValueError
    calls={"int": Fn("intOfStr", [STR], INT, raises=("ValueError",))},
    patterns=[(_src_matcher("HTTP_STATUS_CODES[$c].upper()", args=["c"]), Fn("statusPhraseUpper status_phrase", [INT], STR, raises=("KeyError",)))],
    doc="`Response._clean_status(value)` of src/werkzeug/sansio/response.py for a `str` value, translated by tools/py2lean.py",
)
CLEAN_STATUS_INT = Spec(
    module="sansio/response.py",
    qualname="Response._clean_status",
    name="clean_status_int",
    opaque=[("status_phrase", "Int → Option Pre.Str")],
    params=[("value", "Int")],
    result="Str × Int",
    raises=True,
    # isinstance(value, (int, HTTPStatus)) for an int; `int(value)` is the identity
    static={"isinstance(value, (int, HTTPStatus))": True},
    calls={"int": Fn("id", [INT], INT)},
    patterns=[(_src_matcher("HTTP_STATUS_CODES[$c].upper()", args=["c"]), Fn("statusPhraseUpper status_phrase", [INT], STR, raises=("KeyError",)))],
    doc="`Response._clean_status(value)` of src/werkzeug/sansio/response.py for an `int` value, translated by tools/py2lean.py",
)
CLEAN_STATUS_STR.static = {"isinstance(value, (int, HTTPStatus))": False}

GET_APP_ITER = Spec(
    module=_RESP,
    qualname="Response.get_app_iter",
    name="get_app_iter",
    # which iterable is handed to the server: 0 = `ClosingIterator((), self.close)` (no body),
    # 1 = `self.response` itself (direct passthrough), 2 = `ClosingIterator(self.iter_encoded(), self.close)`
    opaque=[("request_method", "Pre.Str")],
    params=[("self.status_code", "Int"), ("self.direct_passthrough", "Bool"), ("environ", "Unit")],
    result="Int",
    patterns=[
        (_src_matcher("environ['REQUEST_METHOD']"), Fn("request_method", [], STR)),
        (_src_matcher("()"), Fn("0", [], INT)),
        (_src_matcher("self.response"), Fn("1", [], INT)),
        (_src_matcher("self.iter_encoded()"), Fn("2", [], INT)),
        (_src_matcher("ClosingIterator($i, self.close)", args=["i"]), Fn("id", [INT], INT)),
    ],
)

IS_RANGE_REQUEST_PROCESSABLE = Spec(
    module=_RESP,
    qualname="Response._is_range_request_processable",
    name="is_range_request_processable",
    # `modified` = is_resource_modified(environ, etag header, None, last-modified header, ignore_if_range=False)
    opaque=[("has_if_range", "Bool"), ("has_range", "Bool"), ("modified", "Bool")],
    params=[("environ", "Unit")],
    result="Bool",
    patterns=[
        (_src_matcher("'HTTP_IF_RANGE' not in environ"), Fn("(!has_if_range)", [], BOOL)),
        (_src_matcher("'HTTP_RANGE' in environ"), Fn("has_range", [], BOOL)),
        (_src_matcher("is_resource_modified(environ, self.headers.get('etag'), None, self.headers.get('last-modified'), ignore_if_range=False)"), Fn("modified", [], BOOL)),
    ],
)

RANGE_REC = py2lean.record("Range", [("units", "Str"), ("ranges", RANGES_TY)])
RANGE_TO_CONTENT_RANGE_HEADER = Spec(
    module="datastructures/range.py",
    qualname="Range.to_content_range_header",
    name="range_to_content_range_header",
    # `length: int | None` restricted to int (what `_process_range_request` passes)
    params=[("self.units", "Str"), ("self.ranges", RANGES_TY), ("length", "Int")],
    result="Option Str",
    raises=True,
    calls={"self.range_for_length": Fn("Gen.PyFns_Range.range_for_length", [Opt(INT)], Opt(Tup(INT, INT)), raises=("IndexError",), extra=("self_units", "self_ranges"))},
)

_PRR_RES = "Bool × Option Int × Option Str × Option Str × Option Int × Option (Int × Int)"
_PRR_PATTERNS = [
    (_src_matcher("self._is_range_request_processable(environ)"), Fn("processable", [], BOOL)),
    (_src_matcher("environ.get('HTTP_RANGE')"), Fn("http_range", [], Opt(STR))),
]
_PRR_EFFECTS = {
    "self.headers['Content-Length'] = str($c)": [("self.out_content_length", "$c")],
    "self.headers['Accept-Ranges'] = accept_ranges": [("self.out_accept_ranges", "accept_ranges")],
    "self.content_range = $h": [("self.out_content_range", "$h")],
    "self.status_code = 206": [("self.out_status", "206")],
    "self._wrap_range_response($r[0], $c)": [("self.out_wrap", "($r[0], $c)")],
}
_PRR_STATE = ["out_content_length", "out_accept_ranges", "out_content_range", "out_status", "out_wrap"]
_PRR_PARAMS = [("self.out_content_length", "Option Int"), ("self.out_accept_ranges", "Option Str"), ("self.out_content_range", "Option Str"), ("self.out_status", "Option Int"), ("self.out_wrap", "Option (Int × Int)")]
_PRR_CALLS = {
    "parse_range_header": Fn("Gen.PyFns_Range.parse_range_header", [Opt(STR), BOOL], Opt(RANGE_REC), raises=("ValueError",), defaults_from=("http.py", "parse_range_header")),
}
_PRR_METHODS = {
    ("Rec:Range", "range_for_length"): Fn("Gen.PyFns_Range.range_for_length", [Opt(INT)], Opt(Tup(INT, INT)), raises=("IndexError",), recv_fields=("units", "ranges")),
    ("Rec:Range", "to_content_range_header"): Fn("range_to_content_range_header", [INT], Opt(STR), raises=("IndexError",), recv_fields=("units", "ranges")),
}
PROCESS_RANGE_REQUEST_BOOL = Spec(
    module=_RESP,
    qualname="Response._process_range_request",
    name="process_range_request_bool",
    # `accept_ranges: bool | str` as a bool; what the method writes to the response (headers,
    # status, body wrapper) is recorded in the `out_*` attributes
    opaque=[("processable", "Bool"), ("http_range", "Option Pre.Str")],
    params=_PRR_PARAMS + [("environ", "Unit"), ("complete_length", "Option Int"), ("accept_ranges", "Bool")],
    state=_PRR_STATE,
    result="Bool",
    raises=True,
    calls=_PRR_CALLS,
    methods=_PRR_METHODS,
    patterns=_PRR_PATTERNS,
    effects=_PRR_EFFECTS,
    retype=["accept_ranges"],
    doc="`Response._process_range_request` of src/werkzeug/wrappers/response.py for `accept_ranges: bool`, translated by tools/py2lean.py",
)


PROCESS_RANGE_REQUEST_STR = Spec(
    module=_RESP,
    qualname="Response._process_range_request",
    name="process_range_request_str",
    opaque=[("processable", "Bool"), ("http_range", "Option Pre.Str")],
    params=_PRR_PARAMS + [("environ", "Unit"), ("complete_length", "Option Int"), ("accept_ranges", "Str")],
    state=_PRR_STATE,
    result="Bool",
    raises=True,
    calls=_PRR_CALLS,
    methods=_PRR_METHODS,
    patterns=_PRR_PATTERNS,
    effects=_PRR_EFFECTS,
    doc="`Response._process_range_request` of src/werkzeug/wrappers/response.py for `accept_ranges: str`, translated by tools/py2lean.py",
)


def _content_length_absent(n):
    """`'content-length' not in self.headers` -> [the Content-Length `_process_range_request` may have written]"""
    import ast

    try:
        if ast.unparse(n) == "'content-length' not in self.headers":
            return [ast.parse("self.out_content_length", mode="eval").body]
    except Exception:  # noqa: BLE001
        pass
    return None


def _prr_call(n):
    """`self._process_range_request(environ, complete_length, accept_ranges)` -> [None (the environ is only asked
    through the parameters `processable` / `http_range`), complete_length, accept_ranges]"""
    import ast

    if isinstance(n, ast.Call) and py2lean.dotted(n.func) == "self._process_range_request" and len(n.args) == 3 and not n.keywords:
        none = ast.Constant(value=None)
        ast.copy_location(none, n)
        return [none, n.args[1], n.args[2]]
    return None


_MC_STATE = ["out_date"] + _PRR_STATE
MAKE_CONDITIONAL = Spec(
    module=_RESP,
    qualname="Response.make_conditional",
    name="make_conditional_bool",
    # what the request and the response headers are asked: parameters; what the method writes
    # (Date, status, Content-Length, and everything `_process_range_request` writes): `out_*`
    opaque=[
        ("request_method", "Pre.Str"), ("has_date", "Bool"), ("modified", "Bool"), ("if_match_given", "Bool"),
        ("processable", "Bool"), ("http_range", "Option Pre.Str"),
        ("auto_content_length", "Bool"), ("has_content_length", "Bool"), ("calculated_length", "Option Int"),
    ],
    params=[("self.out_date", "Bool")] + _PRR_PARAMS + [("request_or_environ", "Unit"), ("accept_ranges", "Bool"), ("complete_length", "Option Int")],
    state=_MC_STATE,
    result="Unit",
    raises=True,
    retype=["accept_ranges"],
    patterns=[
        (_prr_call, Fn(
            "process_range_request_bool processable http_range", [py2lean.NONE, Opt(INT), BOOL], BOOL,
            raises=("RequestedRangeNotSatisfiable", "ValueError", "IndexError"), state=tuple("self." + k for k in _PRR_STATE),
        )),
        (_src_matcher("_get_environ(request_or_environ)"), Fn("()", [], py2lean.NONE)),
        (_src_matcher("$e['REQUEST_METHOD']"), Fn("request_method", [], STR)),
        (_src_matcher("'date' not in self.headers"), Fn("(!has_date)", [], BOOL)),
        (_src_matcher("is_resource_modified($e, self.headers.get('etag'), None, self.headers.get('last-modified'))"), Fn("modified", [], BOOL)),
        (_src_matcher("parse_etags($e.get('HTTP_IF_MATCH'))"), Fn("if_match_given", [], BOOL)),
        (_src_matcher("self.automatically_set_content_length"), Fn("auto_content_length", [], BOOL)),
        # a Content-Length written by `_process_range_request` counts
        (_content_length_absent, Fn("contentLengthAbsent has_content_length", [Opt(INT)], BOOL)),
        (_src_matcher("self.calculate_content_length()"), Fn("calculated_length", [], Opt(INT))),
        (_src_matcher("self"), Fn("()", [], py2lean.NONE)),
    ],
    effects={
        "self.headers['Date'] = http_date()": [("self.out_date", "True")],
        "self.status_code = 412": [("self.out_status", "412")],
        "self.status_code = 304": [("self.out_status", "304")],
        "self.headers['Content-Length'] = str($l)": [("self.out_content_length", "$l")],
    },
    doc="`Response.make_conditional` of src/werkzeug/wrappers/response.py for `accept_ranges: bool`, translated by tools/py2lean.py",
)


@generator("PyFns_Response")
def gen_response():
    extra = """/-- `int(text)` through C06's hand model `pyInt` -/
def intOfStr (s : Pre.Str) : Except String Int := Wz.Http.pyInt s

/-- `HTTP_STATUS_CODES[code].upper()` for a table given as a lookup function: KeyError when absent -/
def statusPhraseUpper (phrase : Int → Option Pre.Str) (code : Int) : Except String Pre.Str :=
  match phrase code with
  | some p => .ok (Pre.upper p)
  | none => .error "KeyError"

/-- `"content-length" not in self.headers` in `make_conditional`: neither present before the call nor
written by `_process_range_request` -/
def contentLengthAbsent (had : Bool) (written : Option Int) : Bool := !(had || written.isSome)

"""
    return emit("Response", [CLEAN_STATUS_STR, CLEAN_STATUS_INT, GET_APP_ITER, IS_RANGE_REQUEST_PROCESSABLE, RANGE_TO_CONTENT_RANGE_HEADER, PROCESS_RANGE_REQUEST_BOOL, PROCESS_RANGE_REQUEST_STR, MAKE_CONDITIONAL], imports=["WzVerif.Model.Http", "WzVerif.Gen.PyFns_Range"], extra=extra)


# --------------------------------------------------------------------------
# C13: cookies


def _find_stmt_text(module, qualname, startswith):
    """`ast.unparse` text of the (single) statement of the function whose text starts with `startswith`"""
    import ast

    tr = py2lean.Translator(Spec(module=module, qualname=qualname, name="_", params=[], result="Unit"), REPO)
    fn, _ = tr.find_def()
    hits = [ast.unparse(x) for x in ast.walk(fn) if isinstance(x, ast.stmt) and not isinstance(x, (ast.FunctionDef, ast.If, ast.For, ast.While, ast.Try)) and ast.unparse(x).startswith(startswith)]
    return hits[0] if len(hits) == 1 else None


def _cookie_escape(n):
    """`_cookie_slash_re.sub(lambda m: _cookie_slash_map[m.group()], X.encode()).decode("ascii")` -> [X]"""
    import ast

    try:
        src = ast.unparse(n)
    except Exception:  # noqa: BLE001
        return None
    pre, post = "_cookie_slash_re.sub(lambda m: _cookie_slash_map[m.group()], ", ".encode()).decode('ascii')"
    if isinstance(n, ast.Call) and src.startswith(pre) and src.endswith(post):
        inner = n.func.value.args[1].func.value
        return [inner]
    return None


def dump_cookie_spec():
    warn = _find_stmt_text("http.py", "dump_cookie", "warnings.warn(")
    return Spec(
        module="http.py",
        qualname="dump_cookie",
        name="dump_cookie",
        # `expires` restricted to `str | None`, `max_age` to `int | None`; the IDNA codec and
        # `http_date(now + max_age)` are parameters; the size warning has no effect in the model
        opaque=[("idna", "Pre.Str → Except String Pre.Str"), ("expires_in", "Int → Pre.Str")],
        params=[
            ("key", "Str"), ("value", "Str"), ("max_age", "Option Int"), ("expires", "Option Str"), ("path", "Option Str"), ("domain", "Option Str"),
            ("secure", "Bool"), ("httponly", "Bool"), ("sync_expires", "Bool"), ("max_size", "Int"), ("samesite", "Option Str"), ("partitioned", "Bool"),
        ],
        result="Str",
        raises=True,
        retype=["*"],
        static={"isinstance(max_age, timedelta)": False, "isinstance(expires, str)": True},
        calls={"_cookie_no_quote_re.fullmatch": Fn("cookieNoQuoteFullmatch", [STR], Opt(py2lean.OBJ))},
        patterns=[
            (_quote_safe, _QUOTE_STR),
            (chain_matcher(("encode", ("idna",)), ("decode", ("ascii",))), IDNA),
            (_src_matcher("http_date(datetime.now(tz=timezone.utc).timestamp() + max_age)"), Fn("expires_in max_age", [], STR)),
            (_cookie_escape, Fn("cookieEscapeValue", [STR], STR, raises=("KeyError", "UnicodeDecodeError"))),
            (chain_matcher(("encode", ()), ("decode", ("latin1",))), Fn("Pre.utf8ThenLatin1", [STR], STR)),
        ],
        effects={warn: []} if warn else {},
    )


def _decode_errors_replace(n):
    """`X.decode(errors="replace")` -> [X]"""
    import ast

    if isinstance(n, ast.Call) and isinstance(n.func, ast.Attribute) and n.func.attr == "decode" and not n.args and len(n.keywords) == 1:
        kw = n.keywords[0]
        if kw.arg == "errors" and isinstance(kw.value, ast.Constant) and kw.value.value == "replace":
            return [n.func.value]
    return None


def _cookie_unslash(n):
    """`_cookie_unslash_re.sub(_cookie_unslash_replace, X.encode()).decode(errors="replace")` -> [X]"""
    import ast

    try:
        src = ast.unparse(n)
    except Exception:  # noqa: BLE001
        return None
    pre, post = "_cookie_unslash_re.sub(_cookie_unslash_replace, ", ".encode()).decode(errors='replace')"
    if isinstance(n, ast.Call) and src.startswith(pre) and src.endswith(post):
        return [n.func.value.args[1].func.value]
    return None


def _cls_call0(n):
    """`cls()` -> []"""
    import ast

    if isinstance(n, ast.Call) and isinstance(n.func, ast.Name) and n.func.id == "cls" and not n.args and not n.keywords:
        return []
    return None


def _sansio_parse_cookie_call(n):
    """`_sansio_http.parse_cookie(cookie=X, cls=cls)` -> [X, cls]"""
    import ast

    if isinstance(n, ast.Call) and py2lean.dotted(n.func) == "_sansio_http.parse_cookie" and not n.args and [k.arg for k in n.keywords] == ["cookie", "cls"]:
        return [n.keywords[0].value, n.keywords[1].value]
    return None


_PAIRS = py2lean.Lst(Tup(STR, STR))
SANSIO_PARSE_COOKIE = Spec(
    module="sansio/http.py",
    qualname="parse_cookie",
    name="sansio_parse_cookie",
    # `cls(out)` / `cls()`: the result is the pair list handed to the MultiDict class
    params=[("cookie", "Option Str"), ("cls", "Unit")],
    locals={"[]#1": "List (Str × Str)"},  # (locals by start value / position: #1 = out)
    result="List (Str × Str)",
    raises=True,  # cv[0] / cv[-1] raise IndexError on "": proved impossible (len guard)
    static={"cls is None": False},
    # `_cookie_re.findall(cookie)`: C13's hand model `findAll` of the verbose regex (shape pinned by
    # Props/C13 `regex_shapes`), with the fuel the model function uses
    calls={"_cookie_re.findall": Fn("cookieReFindall", [STR], _PAIRS)},
    patterns=[
        (_cookie_unslash, Fn("cookieUnslashValue", [STR], STR)),
        (_cls_call, Fn("id", [_PAIRS], _PAIRS)),
        (_cls_call0, Fn("([] : List (Pre.Str × Pre.Str))", [], _PAIRS)),
    ],
)
HTTP_PARSE_COOKIE = Spec(
    module="http.py",
    qualname="parse_cookie",
    name="http_parse_cookie",
    # the `str | None` form of `header` (the environ form only looks up HTTP_COOKIE first)
    params=[("header", "Option Str"), ("cls", "Unit")],
    result="List (Str × Str)",
    raises=True,  # UnicodeEncodeError for a character above U+00FF (cannot come from a WSGI environ)
    static={"isinstance(header, dict)": False},
    patterns=[
        (_sansio_parse_cookie_call, Fn("sansio_parse_cookie", [Opt(STR), py2lean.NONE], _PAIRS, raises=("IndexError",))),
        (chain_matcher(("encode", ("latin1",))), Fn("Pre.encodeLatin1", [STR], py2lean.BYTES, raises=("UnicodeEncodeError",))),
        (_decode_errors_replace, Fn("Pre.decodeUtf8Replace", [py2lean.BYTES], STR)),
    ],
)

HTTP_PARSE_COOKIE_ENVIRON = Spec(
    module="http.py",
    qualname="parse_cookie",
    name="http_parse_cookie_environ",
    # the WSGI environ form of `header`: a dict of texts, `HTTP_COOKIE` is looked up first
    params=[("header", "Dict Str Str"), ("cls", "Unit")],
    result="List (Str × Str)",
    raises=True,
    static={"isinstance(header, dict)": True},
    patterns=HTTP_PARSE_COOKIE.patterns,
    doc="`werkzeug.http.parse_cookie(environ)` of src/werkzeug/http.py for a WSGI environ, translated by tools/py2lean.py",
)


@generator("PyFns_Cookie")
def gen_cookie():
    extra = regex_const("werkzeug.http", "_cookie_no_quote_re", "cookieNoQuoteRe")
    extra += """/-- `_cookie_no_quote_re.fullmatch(value)` (a single starred character class): the class evaluated
on every code point is `Cookie.noQuoteChar` (Gen/Cookie.lean, regenerated from the live pattern) -/
def cookieNoQuoteFullmatch (v : Pre.Str) : Option Unit := if v.all Wz.Cookie.noQuoteChar then some () else none

/-- `_cookie_slash_re.sub(lambda m: _cookie_slash_map[m.group()], value.encode()).decode("ascii")`
through the model's `escapeBytes` / `asciiDec` over the regenerated slash set and map -/
def cookieEscapeValue (v : Pre.Str) : Except String Pre.Str :=
  match Wz.Cookie.escapeBytes (utf8Enc v) with
  | none => .error "KeyError"
  | some e =>
    match Wz.Cookie.asciiDec e with
    | none => .error "UnicodeDecodeError"
    | some s => .ok s

"""
    extra += """/-- `_cookie_re.findall(cookie)` through the model's `findAll` (fuel = length + 1, as the model's own
`parseCookie` uses it) -/
def cookieReFindall (cookie : Pre.Str) : List (Pre.Str × Pre.Str) := Wz.Cookie.findAll (cookie.length + 1) cookie

/-- `_cookie_unslash_re.sub(_cookie_unslash_replace, inner.encode()).decode(errors="replace")` through
the model's `unslash` (octal / backslash escapes over the regenerated byte classes) -/
def cookieUnslashValue (inner : Pre.Str) : Pre.Str := Py.decodeReplace (Wz.Cookie.unslash (utf8Enc inner))

"""
    return emit("Cookie", [dump_cookie_spec(), SANSIO_PARSE_COOKIE, HTTP_PARSE_COOKIE, HTTP_PARSE_COOKIE_ENVIRON], imports=["WzVerif.Model.Cookie", "WzVerif.Model.Url"], extra=extra)


# --------------------------------------------------------------------------
# C15: URLs


def _quote_safe(n):
    """`quote(X, safe=<str literal>)` -> [<literal>, X]"""
    import ast

    if isinstance(n, ast.Call) and isinstance(n.func, ast.Name) and n.func.id == "quote" and len(n.args) == 1 and len(n.keywords) == 1:
        kw = n.keywords[0]
        if kw.arg == "safe" and isinstance(kw.value, ast.Constant) and isinstance(kw.value.value, str):
            return [kw.value, n.args[0]]
    return None


#: `urllib.parse.quote(text, safe=lit)`: C15's hand model (UTF-8 bytes, `_ALWAYS_SAFE` regenerated)
_QUOTE_STR = Fn("Wz.Url.quote", [STR, STR], STR)
_QUOTE_ANY = Fn("Wz.Url.quote", [STR, None], STR, result_of=lambda ts: STR if ts[1] == STR else None)


def _quote_safe_bytes(n):
    """`quote(<bytes expr>, safe=<literal>)` is tried first for the query string"""
    import ast

    r = _quote_safe(n)
    if r is not None and isinstance(r[1], ast.Name) and r[1].id == "query_string":
        return r
    return None


GET_CURRENT_URL = Spec(
    module="sansio/utils.py",
    qualname="get_current_url",
    name="get_current_url",
    # `uri_to_iri` stays a parameter (text -> text, may raise)
    opaque=[("uri_to_iri", "Pre.Str → Except String Pre.Str")],
    params=[("scheme", "Str"), ("host", "Str"), ("root_path", "Option Str"), ("path", "Option Str"), ("query_string", "Option Bytes")],
    result="Str",
    raises=True,
    calls={"uri_to_iri": Fn("uri_to_iri", [STR], STR, raises=("ValueError", "UnicodeError"))},
    patterns=[
        (_quote_safe_bytes, Fn("Wz.Url.quoteBytes", [STR, py2lean.BYTES], STR)),
        (_quote_safe, _QUOTE_STR),
    ],
)

WSGI_DECODING_DANCE = Spec(
    module="_internal.py",
    qualname="_wsgi_decoding_dance",
    name="wsgi_decoding_dance",
    params=[("s", "Str")],
    result="Str",
    raises=True,  # UnicodeEncodeError for a character above U+00FF
    patterns=[
        (chain_matcher(("encode", ("latin1",))), Fn("Pre.encodeLatin1", [STR], py2lean.BYTES, raises=("UnicodeEncodeError",))),
    ],
    methods={("Bytes", "decode"): Fn("Pre.decodeUtf8Replace", [py2lean.BYTES], STR)},
)


def _decode_replace(n):
    """`X.decode(errors="replace")` -> [X]"""
    import ast

    if isinstance(n, ast.Call) and isinstance(n.func, ast.Attribute) and n.func.attr == "decode" and not n.args and len(n.keywords) == 1:
        kw = n.keywords[0]
        if kw.arg == "errors" and isinstance(kw.value, ast.Constant) and kw.value.value == "replace":
            return [n.func.value]
    return None


WSGI_DECODING_DANCE.patterns.insert(0, (_decode_replace, Fn("Pre.decodeUtf8Replace", [py2lean.BYTES], STR)))
WSGI_ENCODING_DANCE = Spec(
    module="_internal.py",
    qualname="_wsgi_encoding_dance",
    name="wsgi_encoding_dance",
    params=[("s", "Str")],
    result="Str",
    patterns=[(chain_matcher(("encode", ()), ("decode", ("latin1",))), Fn("Pre.utf8ThenLatin1", [STR], STR))],
)

# urlsplit's result as a parameter: the attributes the functions read
SPLIT_RESULT = py2lean.record(
    "SplitResult",
    [("scheme", "Str"), ("hostname", "Option Str"), ("port", "Option Int"), ("username", "Option Str"), ("password", "Option Str"), ("path", "Str"), ("query", "Str"), ("fragment", "Str")],
)
_SPLIT5 = Tup(STR, STR, STR, STR, STR)
_URL_COMMON = dict(
    module="urls.py",
    result="Str × Str × Str × Str × Str",
    raises=True,
)


def _urlunsplit5(n):
    """`urlunsplit((a, b, c, d, e))` -> [(a, b, c, d, e)]: the 5-tuple itself is the result"""
    import ast

    if isinstance(n, ast.Call) and isinstance(n.func, ast.Name) and n.func.id == "urlunsplit" and len(n.args) == 1 and not n.keywords:
        if isinstance(n.args[0], ast.Tuple) and len(n.args[0].elts) == 5:
            return [n.args[0]]
    return None


IRI_TO_URI = Spec(
    qualname="iri_to_uri",
    name="iri_to_uri",
    # `urlsplit(iri)` and the IDNA codec stay parameters; the result is the 5-tuple handed to urlunsplit
    opaque=[("urlsplit", "Pre.Str → Pre.Str × Option Pre.Str × Option Int × Option Pre.Str × Option Pre.Str × Pre.Str × Pre.Str × Pre.Str"), ("idna", "Pre.Str → Except String Pre.Str")],
    params=[("iri", "Str")],
    calls={"urlsplit": Fn("urlsplit", [STR], SPLIT_RESULT)},
    patterns=[
        (_quote_safe, _QUOTE_STR),
        (chain_matcher(("encode", ("idna",)), ("decode", ("ascii",))), IDNA),
        (_urlunsplit5, Fn("id", [_SPLIT5], _SPLIT5)),
    ],
    **_URL_COMMON,
)
_KEEP = lambda name: Fn(f"Wz.Url.unquotePartial Gen.UrlTables.{name}", [STR], STR)  # noqa: E731
URI_TO_IRI = Spec(
    qualname="uri_to_iri",
    name="uri_to_iri",
    opaque=[("urlsplit", "Pre.Str → Pre.Str × Option Pre.Str × Option Int × Option Pre.Str × Option Pre.Str × Pre.Str × Pre.Str × Pre.Str"), ("decode_idna", "Pre.Str → Pre.Str")],
    params=[("uri", "Str")],
    # `_unquote_<part>` = `_make_unquote_part(name, chars)`: C15's hand model `unquotePartial` with the
    # keep-quoted set evaluated from the live compiled pattern (Gen/UrlTables.lean)
    calls={
        "urlsplit": Fn("urlsplit", [STR], SPLIT_RESULT),
        "_decode_idna": Fn("decode_idna", [STR], STR),
        "_unquote_path": _KEEP("keepPath"),
        "_unquote_query": _KEEP("keepQuery"),
        "_unquote_fragment": _KEEP("keepFragment"),
        "_unquote_user": _KEEP("keepUser"),
    },
    patterns=[(_urlunsplit5, Fn("id", [_SPLIT5], _SPLIT5))],
    **_URL_COMMON,
)


# DispatcherMiddleware.__call__ (middleware/dispatcher.py): apps are an abstract type
DISPATCHER_CALL = Spec(
    module="middleware/dispatcher.py",
    qualname="DispatcherMiddleware.__call__",
    name="dispatcher_call",
    type_params=["α"],
    # what is read from / written to the environ: `path_info_in` = environ.get("PATH_INFO", ""),
    # `script_name_in` = environ.get("SCRIPT_NAME", ""); the two stores are recorded in `out_*`
    opaque=[("path_info_in", "Pre.Str"), ("script_name_in", "Pre.Str")],
    params=[("self.mounts", "Dict Str α"), ("self.app", "α"), ("self.out_script_name", "Str"), ("self.out_path_info", "Str"), ("environ", "Unit"), ("start_response", "Unit")],
    state=["out_script_name", "out_path_info"],
    result="α",
    raises=True,  # fuel; `self.mounts[script]` (guarded by `in`) and the rsplit unpacking (guarded by `"/" in`): proved impossible
    patterns=[
        (_src_matcher("environ.get('PATH_INFO', '')"), Fn("path_info_in", [], STR)),
        (_src_matcher("environ.get('SCRIPT_NAME', '')"), Fn("script_name_in", [], STR)),
        (_src_matcher("app(environ, start_response)"), Fn("app", [], py2lean.Abs("α"))),
    ],
    effects={
        "environ['SCRIPT_NAME'] = $o + $s": [("self.out_script_name", "$o + $s")],
        "environ['PATH_INFO'] = $p": [("self.out_path_info", "$p")],
    },
)
py2lean.ABSTRACT_TYPES.add("α")


@generator("PyFns_Url")
def gen_url():
    return emit("Url", [GET_CURRENT_URL, WSGI_DECODING_DANCE, WSGI_ENCODING_DANCE, IRI_TO_URI, URI_TO_IRI, DISPATCHER_CALL], imports=["WzVerif.Model.Url"])


# --------------------------------------------------------------------------
# C01: multipart decoder

LAST_NEWLINE = Spec(
    module="sansio/multipart.py",
    qualname="MultipartDecoder.last_newline",
    name="last_newline",
    params=[("data", "Bytes")],
    result="Int",
)


RECEIVE_DATA = Spec(
    module="sansio/multipart.py",
    qualname="MultipartDecoder.receive_data",
    name="receive_data",
    params=[("self.complete", "Bool"), ("self.buffer", "Bytes"), ("self.max_form_memory_size", "Option Int"), ("data", "Option Bytes")],
    state=["complete", "buffer"],
    result="Unit",
    raises=True,
    effects={"self.buffer.extend(data)": [("self.buffer", "self.buffer + data")]},
)


@generator("PyFns_Multipart")
def gen_multipart():
    return emit("Multipart", [LAST_NEWLINE, RECEIVE_DATA])


# --------------------------------------------------------------------------
# C02: multipart encoder (`MultipartEncoder.send_event`, one translation per event class: the
# `isinstance` tests are decided by the declared class of `event`)

_MP = "sansio/multipart.py"
py2lean.ABSTRACT_TYPES.add("Wz.Multipart.State")
_MP_STATE = "Wz.Multipart.State"
_MP_HEADERS = "List (Str × Str)"
_EV_RECS = {
    "Preamble": py2lean.record("Preamble", [("data", "Bytes")]),
    "Field": py2lean.record("Field", [("name", "Str"), ("headers", _MP_HEADERS)]),
    "File": py2lean.record("File", [("name", "Str"), ("filename", "Str"), ("headers", _MP_HEADERS)]),
    "Data": py2lean.record("Data", [("data", "Bytes"), ("more_data", "Bool")]),
    "Epilogue": py2lean.record("Epilogue", [("data", "Bytes")]),
}
_EV_LEAN = {
    "Preamble": "Pre.Bytes",
    "Field": "Pre.Str × List (Pre.Str × Pre.Str)",
    "File": "Pre.Str × Pre.Str × List (Pre.Str × Pre.Str)",
    "Data": "Pre.Bytes × Bool",
    "Epilogue": "Pre.Bytes",
}


def send_event_spec(kind):
    return Spec(
        module=_MP,
        qualname="MultipartEncoder.send_event",
        name="send_event_" + kind.lower(),
        params=[("self.boundary", "Bytes"), ("self.state", _MP_STATE), ("event", kind)],
        state=["state"],
        result="Bytes",
        raises=True,
        eq_types=[_MP_STATE],
        static={
            "isinstance(event, Preamble)": kind == "Preamble",
            "isinstance(event, (Field, File))": kind in ("Field", "File"),
            "isinstance(event, File)": kind == "File",
            "isinstance(event, Data)": kind == "Data",
            "isinstance(event, Epilogue)": kind == "Epilogue",
        },
        consts={
            "State.PREAMBLE": ("Wz.Multipart.State.preamble", _MP_STATE),
            "State.PART": ("Wz.Multipart.State.part", _MP_STATE),
            "State.DATA_START": ("Wz.Multipart.State.dataStart", _MP_STATE),
            "State.DATA": ("Wz.Multipart.State.data", _MP_STATE),
            "State.COMPLETE": ("Wz.Multipart.State.complete", _MP_STATE),
        },
        patterns=[(_src_matcher("t.cast(Field, event)"), Fn("event", [], _EV_RECS[kind]))],
        doc=f"`MultipartEncoder.send_event(event)` of src/werkzeug/sansio/multipart.py for a `{kind}` event, translated by tools/py2lean.py",
    )


SEND_EVENT_PREAMBLE = send_event_spec("Preamble")
SEND_EVENT_FIELD = send_event_spec("Field")
SEND_EVENT_FILE = send_event_spec("File")
SEND_EVENT_DATA = send_event_spec("Data")
SEND_EVENT_EPILOGUE = send_event_spec("Epilogue")


@generator("PyFns_Encoder")
def gen_encoder():
    return emit_parts("Encoder", [[SEND_EVENT_PREAMBLE, SEND_EVENT_FIELD, SEND_EVENT_FILE, SEND_EVENT_DATA, SEND_EVENT_EPILOGUE]], imports=("WzVerif.Model.Multipart",))


# --------------------------------------------------------------------------
# C01 / C10: multipart decoder (`MultipartDecoder._parse_data`, `next_event`)

_MPM = Tup(INT, INT, BOOL)  # a match object: (start(), end(), group(1).startswith(b"--"))
_MPM_METHODS = {("Tup", "start"): Fn("Prod.fst", [_MPM], INT), ("Tup", "end"): Fn("mpEnd", [_MPM], INT)}
PARSE_DATA = Spec(
    module="sansio/multipart.py",
    qualname="MultipartDecoder._parse_data",
    name="parse_data",
    params=[("self.state", _MP_STATE), ("data", "Bytes"), ("start", "Bool"), ("self.boundary", "Bytes"), ("self.buffer", "Bytes")],
    state=["state"],
    result="Bytes × Int × Bool",
    raises=True,
    eq_types=[_MP_STATE],
    consts={"State.EPILOGUE": ("Wz.Multipart.State.epilogue", _MP_STATE), "State.PART": ("Wz.Multipart.State.part", _MP_STATE)},
    # `LINE_BREAK_RE.match`, `self.boundary_re.search`: the hand-written matchers of Model/Multipart.lean
    # (compared with the real regexes by stream regex-kernels), as (start, end, closing?) triples
    calls={
        "LINE_BREAK_RE.match": Fn("lineBreakReMatch", [py2lean.BYTES], Opt(_MPM)),
        "self.boundary_re.search": Fn("boundaryReSearch self_boundary", [py2lean.BYTES], Opt(_MPM)),
        "self.last_newline": Fn("Gen.PyFns_Multipart.last_newline", [py2lean.BYTES], INT),
        "bytes": Fn("id", [py2lean.BYTES], py2lean.BYTES),
    },
    patterns=[
        (_src_matcher("$m.group(1).startswith(b'--')", args=["m"]), Fn("mpClosing", [_MPM], BOOL)),
    ],
    methods=_MPM_METHODS,
)

_MP_EVENT = "Wz.Multipart.Event"
py2lean.ABSTRACT_TYPES.add(_MP_EVENT)
_EVT = py2lean.Abs(_MP_EVENT)
_HDRS = py2lean.Lst(Tup(STR, STR))
PARSE_HEADERS = Spec(
    module="sansio/multipart.py",
    qualname="MultipartDecoder._parse_headers",
    name="parse_headers",
    params=[("data", "Bytes")],
    result="List (Str × Str)",
    raises=True,
    locals={"[]#1": "List (Str × Str)"},  # (locals by start value / position: #1 = headers)
    # `HEADER_CONTINUATION_RE.sub(b" ", data)`, `bytes.splitlines()`, `bytes.strip()`: the hand-written
    # kernels of Model/Multipart.lean (stream regex-kernels); `bytes.decode()` is strict UTF-8
    calls={"Headers": Fn("id", [_HDRS], _HDRS)},
    patterns=[
        (_src_matcher("HEADER_CONTINUATION_RE.sub(b' ', data)"), Fn("Wz.Multipart.foldContinuations data", [], py2lean.BYTES)),
        (_src_matcher("data.splitlines()"), Fn("Wz.Multipart.splitLines data", [], py2lean.Lst(py2lean.BYTES))),
    ],
    # `bytes.strip()` / `bytes.decode()` (by the receiver's type, whatever the local is called)
    methods={
        ("Bytes", "strip"): Fn("Wz.Multipart.stripBytes", [py2lean.BYTES], py2lean.BYTES),
        ("Bytes", "decode"): Fn("decodeUtf8Strict", [py2lean.BYTES], STR, raises=("UnicodeDecodeError",)),
    },
)


def _parse_data_call(start):
    import ast

    def m(n):
        if (isinstance(n, ast.Call) and py2lean.dotted(n.func) == "self._parse_data" and len(n.args) == 1 and len(n.keywords) == 1
                and n.keywords[0].arg == "start" and isinstance(n.keywords[0].value, ast.Constant) and n.keywords[0].value.value is start):
            return [n.args[0], n.keywords[0].value]
        return None

    return m


def _isinstance_of(var, cls):
    """matcher for `isinstance(<var>, <cls>)` -> [<var>]"""
    import ast

    def m(n):
        if (isinstance(n, ast.Call) and isinstance(n.func, ast.Name) and n.func.id == "isinstance" and len(n.args) == 2 and not n.keywords
                and isinstance(n.args[0], ast.Name) and n.args[0].id == var and isinstance(n.args[1], ast.Name) and n.args[1].id == cls):
            return [n.args[0]]
        return None

    return m


def _kw_ctor(cls, *kws):
    """matcher for `Cls(k1=X1, k2=X2, ...)` (keywords in any order) -> [X for the names in `kws`]"""
    import ast

    def m(n):
        if isinstance(n, ast.Call) and isinstance(n.func, ast.Name) and n.func.id == cls and not n.args and sorted(k.arg for k in n.keywords) == sorted(kws):
            by = {k.arg: k.value for k in n.keywords}
            return [by[k] for k in kws]
        return None

    return m


_PD_FN = Fn("parse_data", [py2lean.BYTES, BOOL], Tup(py2lean.BYTES, INT, BOOL), raises=("AttributeError",), state=("self.state",), suffix=("self_boundary", "self_buffer"))
NEXT_EVENT = Spec(
    module="sansio/multipart.py",
    qualname="MultipartDecoder.next_event",
    name="next_event",
    # `parse_options_header` (C06/C07's function) stays a parameter
    opaque=[("parse_options", "Pre.Str → Except String (Pre.Str × List (Pre.Str × Pre.Str))")],
    params=[
        ("self.buffer", "Bytes"), ("self.state", _MP_STATE), ("self._search_position", "Int"), ("self._parts_decoded", "Int"),
        ("self.boundary", "Bytes"), ("self.complete", "Bool"), ("self.max_parts", "Option Int"),
    ],
    state=["buffer", "state", "_search_position", "_parts_decoded"],
    result=_MP_EVENT,
    raises=True,
    eq_types=[_MP_STATE, _MP_EVENT],
    consts={
        "State.PREAMBLE": ("Wz.Multipart.State.preamble", _MP_STATE), "State.PART": ("Wz.Multipart.State.part", _MP_STATE),
        "State.DATA_START": ("Wz.Multipart.State.dataStart", _MP_STATE), "State.DATA": ("Wz.Multipart.State.data", _MP_STATE),
        "State.EPILOGUE": ("Wz.Multipart.State.epilogue", _MP_STATE), "State.COMPLETE": ("Wz.Multipart.State.complete", _MP_STATE),
        "NEED_DATA": ("Wz.Multipart.Event.needData", _MP_EVENT),
        "SEARCH_EXTRA_LENGTH": ("(Wz.Multipart.searchExtra : Nat)", "Int"),
    },
    locals={"~NEED_DATA": _MP_EVENT},  # (locals by position: #1 = event)
    calls={
        "self.preamble_re.search": Fn("preambleReSearch self_boundary", [py2lean.BYTES, INT], Opt(_MPM)),
        "BLANK_LINE_RE.search": Fn("blankLineReSearch", [py2lean.BYTES, INT], Opt(_MPM)),
        "self._parse_headers": Fn("parse_headers", [py2lean.BYTES], _HDRS, raises=("UnicodeDecodeError",)),
        "parse_options_header": Fn("parse_options", [STR], Tup(STR, py2lean.Dct(STR, STR)), raises=("ValueError",)),
        "bytes": Fn("id", [py2lean.BYTES], py2lean.BYTES),
    },
    in_ops={"#6": Fn("headersHas", [_HDRS, STR], BOOL)},  # #6 = headers
    patterns=[
        (_src_matcher("$m.group(1).startswith(b'--')", args=["m"]), Fn("mpClosing", [_MPM], BOOL)),
        (_src_matcher("$h['content-disposition']", args=["h", "='content-disposition'"]), Fn("headersGetD", [_HDRS, STR], STR)),
        (_parse_data_call(True), _PD_FN),
        (_parse_data_call(False), _PD_FN),
        (_kw_ctor("Preamble", "data"), Fn("Wz.Multipart.Event.preamble", [py2lean.BYTES], _EVT)),
        (_kw_ctor("Field", "name", "headers"), Fn("Wz.Multipart.Event.field", [Opt(STR), _HDRS], _EVT)),
        (_kw_ctor("File", "name", "filename", "headers"), Fn("Wz.Multipart.Event.file", [Opt(STR), STR, _HDRS], _EVT)),
        (_kw_ctor("Data", "data", "more_data"), Fn("Wz.Multipart.Event.data", [py2lean.BYTES, BOOL], _EVT)),
        (_kw_ctor("Epilogue", "data"), Fn("Wz.Multipart.Event.epilogue", [py2lean.BYTES], _EVT)),
        (_src_matcher("isinstance($e, NeedData)", args=["e"]), Fn("isNeedData", [_EVT], BOOL)),
    ],
    methods=_MPM_METHODS,
)
_DECODER_GLUE2 = """
/-- `self.preamble_re.search(buffer, pos)` through the hand-written `searchDelimFrom` (Model/Multipart.lean) -/
def preambleReSearch (bnd buf : Bytes) (pos : Int) : Option (Int × Int × Bool) :=
  (Wz.Multipart.searchDelimFrom bnd true pos.toNat buf).map fun r => ((r.1 : Nat), (r.2.1 : Nat), r.2.2)

/-- `BLANK_LINE_RE.search(buffer, pos)` through the hand-written `searchBlankFrom` (Model/Multipart.lean) -/
def blankLineReSearch (buf : Bytes) (pos : Int) : Option (Int × Int × Bool) :=
  (Wz.Multipart.searchBlankFrom pos.toNat buf).map fun r => ((r.1 : Nat), (r.2 : Nat), false)

/-- `isinstance(event, NeedData)` -/
def isNeedData (ev : Wz.Multipart.Event) : Bool := ev == Wz.Multipart.Event.needData

/-- `line.decode()`: strict UTF-8 -/
def decodeUtf8Strict (b : Bytes) : Except String Pre.Str :=
  match utf8Dec? b with
  | some s => .ok s
  | none => .error "UnicodeDecodeError"

/-- `key in headers` (`Headers.__contains__`: the names are compared case-insensitively) for a lower-case key -/
def headersHas (h : List (Pre.Str × Pre.Str)) (key : Pre.Str) : Bool := (Wz.Multipart.headerGet key h).isSome

/-- `headers[key]` for a key that is present (`Headers.__getitem__`: the first value) -/
def headersGetD (h : List (Pre.Str × Pre.Str)) (key : Pre.Str) : Pre.Str := (Wz.Multipart.headerGet key h).getD []
"""
_DECODER_GLUE = """/-- `m.end()` of a match object `(start, end, closing?)` -/
def mpEnd (m : Int × Int × Bool) : Int := m.2.1

/-- `m.group(1).startswith(b"--")` of a match object of `preamble_re` / `boundary_re` -/
def mpClosing (m : Int × Int × Bool) : Bool := m.2.2

/-- `LINE_BREAK_RE.match(data)` through the hand-written kernel `lbLen` (Model/Multipart.lean) -/
def lineBreakReMatch (data : Bytes) : Option (Int × Int × Bool) :=
  if Wz.Multipart.lbLen data > 0 then some (0, (Wz.Multipart.lbLen data : Nat), false) else none

/-- `self.boundary_re.search(data)` through the hand-written `searchDelim` (Model/Multipart.lean) -/
def boundaryReSearch (bnd data : Bytes) : Option (Int × Int × Bool) :=
  (Wz.Multipart.searchDelim bnd false data).map fun r => ((r.1 : Nat), (r.2.1 : Nat), r.2.2)
"""


@generator("PyFns_Decoder")
def gen_decoder():
    return emit_parts("Decoder", [_DECODER_GLUE + _DECODER_GLUE2, [PARSE_DATA, PARSE_HEADERS, NEXT_EVENT]], imports=("WzVerif.Model.Multipart", "WzVerif.Gen.PyFns_Multipart"))


# --------------------------------------------------------------------------
# C12: the redirect URL glue of `MapAdapter` (routing/map.py)

_MAP = "routing/map.py"
ADAPTER_GET_HOST = Spec(
    module=_MAP,
    qualname="MapAdapter.get_host",
    name="adapter_get_host",
    params=[("self.map.host_matching", "Bool"), ("self.server_name", "Str"), ("self.subdomain", "Option Str"), ("domain_part", "Option Str")],
    result="Str",
)
_GET_HOST_FN = Fn("adapter_get_host self_map_host_matching_ self_server_name self_subdomain", [Opt(STR)], STR)


def _urlunsplit5(node):
    """`urlunsplit((scheme, netloc, path, query, None))`: the first four components (no fragment)"""
    import ast

    if (isinstance(node, ast.Call) and isinstance(node.func, ast.Name) and node.func.id == "urlunsplit" and len(node.args) == 1 and not node.keywords
            and isinstance(node.args[0], ast.Tuple) and len(node.args[0].elts) == 5
            and isinstance(node.args[0].elts[4], ast.Constant) and node.args[0].elts[4].value is None):
        return list(node.args[0].elts[:4])
    return None


def make_redirect_url_spec(kind):
    """`query_args` is `Mapping | str | None`: one translation per class (`str`: kind = "Str"; a
    mapping, handed over as the list of pairs `_urlencode` iterates: kind = "Pairs")"""
    qa_ty = {"Str": "Option Str", "Pairs": "Option (List (Str × Str))"}[kind]
    return Spec(
        module=_MAP,
        qualname="MapAdapter.make_redirect_url",
        name="make_redirect_url_" + kind.lower(),
        # `urlunsplit((scheme, host, path, query, None))` (urllib) and `_urlencode` stay parameters
        opaque=[("urlunsplit", "Pre.Str → Pre.Str → Pre.Str → Option Pre.Str → Pre.Str"), ("urlencode", "List (Pre.Str × Pre.Str) → Pre.Str")],
        params=[
            ("self.map.host_matching", "Bool"), ("self.server_name", "Str"), ("self.subdomain", "Option Str"),
            ("self.url_scheme", "Str"), ("self.script_name", "Str"), ("self.query_args", qa_ty),
            ("path_info", "Str"), ("query_args", qa_ty), ("domain_part", "Option Str"),
        ],
        result="Str",
        calls={
            "self.get_host": _GET_HOST_FN,
            "self.encode_query_args": Fn("encode_query_args_str" if kind == "Str" else "encode_query_args_pairs urlencode", [STR if kind == "Str" else py2lean.Lst(Tup(STR, STR))], STR),
        },
        patterns=[
            (_urlunsplit5, Fn("urlunsplit", [STR, STR, STR, Opt(STR)], STR)),
        ],
        doc=f"`MapAdapter.make_redirect_url(path_info, query_args, domain_part)` of src/werkzeug/routing/map.py for {'a `str`' if kind == 'Str' else 'a mapping (list of pairs)'} `query_args` (or None), translated by tools/py2lean.py",
    )


def make_alias_redirect_url_spec(kind):
    return Spec(
        module=_MAP,
        qualname="MapAdapter.make_alias_redirect_url",
        name="make_alias_redirect_url_" + kind.lower(),
        # `self.build(endpoint, values, method, append_unknown=False, force_external=True)` stays a
        # parameter (the canonical URL, or the BuildError it raises)
        opaque=[("built", "Except String Pre.Str")] + ([("urlencode", "List (Pre.Str × Pre.Str) → Pre.Str")] if kind == "Pairs" else []),
        params=[("path", "Str"), ("endpoint", "Unit"), ("values", "Unit"), ("method", "Unit"), ("query_args", "Str" if kind == "Str" else "List (Str × Str)")],
        result="Str",
        raises=True,
        calls={"self.encode_query_args": Fn("encode_query_args_str" if kind == "Str" else "encode_query_args_pairs urlencode", [STR if kind == "Str" else py2lean.Lst(Tup(STR, STR))], STR)},
        patterns=[(_src_matcher("self.build(endpoint, values, method, append_unknown=False, force_external=True)"), Fn("built", [], STR, raises=("BuildError",)))],
        doc=f"`MapAdapter.make_alias_redirect_url(path, endpoint, values, method, query_args)` of src/werkzeug/routing/map.py for {'a `str`' if kind == 'Str' else 'a mapping (list of pairs)'} `query_args`, translated by tools/py2lean.py",
    )


MAKE_ALIAS_REDIRECT_URL_STR = make_alias_redirect_url_spec("Str")
MAKE_ALIAS_REDIRECT_URL_PAIRS = make_alias_redirect_url_spec("Pairs")
MAKE_REDIRECT_URL_STR = make_redirect_url_spec("Str")
MAKE_REDIRECT_URL_PAIRS = make_redirect_url_spec("Pairs")
ENCODE_QUERY_ARGS_STR = Spec(
    module=_MAP, qualname="MapAdapter.encode_query_args", name="encode_query_args_str",
    params=[("query_args", "Str")], result="Str", static={"isinstance(query_args, str)": True},
)
ENCODE_QUERY_ARGS_PAIRS = Spec(
    module=_MAP, qualname="MapAdapter.encode_query_args", name="encode_query_args_pairs",
    opaque=[("urlencode", "List (Pre.Str × Pre.Str) → Pre.Str")],
    params=[("query_args", "List (Str × Str)")], result="Str", static={"isinstance(query_args, str)": False},
    calls={"_urlencode": Fn("urlencode", [py2lean.Lst(Tup(STR, STR))], STR)},
)


@generator("PyFns_RoutingUrl")
def gen_routing_url():
    return emit_parts("RoutingUrl", [[ADAPTER_GET_HOST, ENCODE_QUERY_ARGS_STR, ENCODE_QUERY_ARGS_PAIRS, MAKE_REDIRECT_URL_STR, MAKE_REDIRECT_URL_PAIRS, MAKE_ALIAS_REDIRECT_URL_STR, MAKE_ALIAS_REDIRECT_URL_PAIRS]])


# --------------------------------------------------------------------------
# C08: MultiDict (datastructures/structures.py). The object *is* a dict of lists: it is the
# parameter `self.d` (state of the mutators); `super().<dict method>(...)` are the prelude's dict
# primitives on it, keys are texts, the value type is a parameter.

_MDS = "datastructures/structures.py"
_NU = py2lean.Abs("ν")
_MD_TY = "Dict Str (List ν)"
_MD_T = py2lean.Dct(STR, py2lean.Lst(_NU))
_LNU = py2lean.Lst(_NU)


def _super_call(method, nargs, with_self=False):
    """matcher for `super().<method>(a1..an)` -> [a1..an] (`with_self`: the object's dict `self.d` first -
    as a node, so that it is looked up in the environment where the call stands)"""
    import ast

    def m(n):
        if (isinstance(n, ast.Call) and isinstance(n.func, ast.Attribute) and n.func.attr == method and not n.keywords and len(n.args) == nargs
                and isinstance(n.func.value, ast.Call) and isinstance(n.func.value.func, ast.Name) and n.func.value.func.id == "super"
                and not n.func.value.args and not n.func.value.keywords):
            return ([ast.parse("self.d", mode="eval").body] if with_self else []) + list(n.args)
        return None

    return m


_MD_READS = [
    (_super_call("__getitem__", 1, True), Fn("Pre.dictGetItem", [_MD_T, STR], _LNU, raises=("KeyError",))),
    (_super_call("items", 0, True), Fn("Pre.dictItems", [_MD_T], py2lean.Lst(Tup(STR, _LNU)))),
    (_super_call("values", 0, True), Fn("Pre.dictValues", [_MD_T], py2lean.Lst(_LNU))),
]
_MD_COMMON = dict(module=_MDS, type_params=["ν"], in_ops={"self": Fn("Pre.dictHas self_d", [STR], BOOL)})
_MD_CALLS = {
    "dict_set": Fn("Pre.dictSet", [_MD_T, STR, _LNU], _MD_T),
    "dict_get_d": Fn("Pre.dictGetD", [_MD_T, STR, _LNU], _LNU),
    "dict_del": Fn("Pre.dictDel", [_MD_T, STR], _MD_T),
}

MD_GETITEM = Spec(qualname="MultiDict.__getitem__", name="md_getitem", params=[("self.d", _MD_TY), ("key", "Str")], result="ν", raises=True, patterns=_MD_READS, **_MD_COMMON)
MD_SETITEM = Spec(
    qualname="MultiDict.__setitem__", name="md_setitem", params=[("self.d", _MD_TY), ("key", "Str"), ("value", "ν")], state=["d"], result="Unit",
    effects={"super().__setitem__(key, [value])": [("self.d", "dict_set(self.d, key, [value])")]}, calls=_MD_CALLS, **_MD_COMMON,
)
MD_ADD = Spec(
    qualname="MultiDict.add", name="md_add", params=[("self.d", _MD_TY), ("key", "Str"), ("value", "ν")], state=["d"], result="Unit",
    # `dict.setdefault(key, [])` answers the list stored under the key (a new empty one is stored first),
    # `.append(value)` mutates that list in place: the entry becomes the old list plus the value
    effects={"super().setdefault(key, []).append(value)": [("self.d", "dict_set(self.d, key, dict_get_d(self.d, key, []) + [value])")]}, calls=_MD_CALLS, **_MD_COMMON,
)
MD_GETLIST = Spec(
    qualname="MultiDict.getlist", name="md_getlist", params=[("self.d", _MD_TY), ("key", "Str"), ("type", "Unit")], result="List ν",
    static={"type is None": True},  # called without `type`
    patterns=_MD_READS, calls={"list": Fn("id", [_LNU], _LNU)}, **_MD_COMMON,
)
_TAU_T = py2lean.Abs("τ")
MD_GETLIST_TYPED = Spec(
    qualname="MultiDict.getlist", name="md_getlist_typed", params=[("self.d", _MD_TY), ("key", "Str"), ("type", "Conv")], result="List τ",
    # `type`: a callable that answers a value or raises ValueError / TypeError
    opaque=[("call_type", "Conv → ν → Except String τ")],
    static={"type is None": False},
    patterns=_MD_READS, calls={"list": Fn("id", [_LNU], _LNU)},
    callables={"Conv": Fn("call_type", [py2lean.Abs("Conv"), _NU], _TAU_T, raises=("ValueError", "TypeError"))},
    locals={"[]#1": "List τ"},  # (locals by start value / position: #2 = result)
    module=_MDS, type_params=["ν", "τ", "Conv"], in_ops=_MD_COMMON["in_ops"],
)
MD_SETLIST = Spec(
    qualname="MultiDict.setlist", name="md_setlist", params=[("self.d", _MD_TY), ("key", "Str"), ("new_list", "List ν")], state=["d"], result="Unit",
    effects={"super().__setitem__(key, list(new_list))": [("self.d", "dict_set(self.d, key, list(new_list))")]}, calls={**_MD_CALLS, "list": Fn("id", [_LNU], _LNU)}, **_MD_COMMON,
)
MD_LISTS = Spec(qualname="MultiDict.lists", name="md_lists", params=[("self.d", _MD_TY)], result="List (Str × List ν)", patterns=_MD_READS, calls={"list": Fn("id", [_LNU], _LNU)}, **_MD_COMMON)
MD_VALUES = Spec(qualname="MultiDict.values", name="md_values", params=[("self.d", _MD_TY)], result="List ν", raises=True, patterns=_MD_READS, **_MD_COMMON)
MD_LISTVALUES = Spec(qualname="MultiDict.listvalues", name="md_listvalues", params=[("self.d", _MD_TY)], result="List (List ν)", patterns=_MD_READS, **_MD_COMMON)
MD_ITEMS = Spec(qualname="MultiDict.items", name="md_items", params=[("self.d", _MD_TY), ("multi", "Bool")], result="List (Str × ν)", raises=True, patterns=_MD_READS, **_MD_COMMON)

_MD_STATE = ("self.d",)


def _self_item(n):
    """`self[K]` (read) -> [the object's dict `self.d` as a node, K]"""
    import ast

    if isinstance(n, ast.Subscript) and isinstance(n.ctx, ast.Load) and isinstance(n.value, ast.Name) and n.value.id == "self":
        return [ast.parse("self.d", mode="eval").body, n.slice]
    return None


MD_SETDEFAULT = Spec(
    qualname="MultiDict.setdefault", name="md_setdefault", params=[("self.d", _MD_TY), ("key", "Str"), ("default", "ν")], state=["d"], result="ν", raises=True,
    # `self[key] = default` is `__setitem__`, `self[key]` is `__getitem__` (both translated above)
    effects={"self[key] = default": [("self.d", "md_setitem_(self.d, key, default)")]},
    calls={"md_setitem_": Fn("md_setitem", [_MD_T, STR, _NU], _MD_T)},
    patterns=[(_self_item, Fn("md_getitem", [_MD_T, STR], _NU, raises=("BadRequestKeyError",)))],
    **_MD_COMMON,
)
MD_SETLISTDEFAULT = Spec(
    qualname="MultiDict.setlistdefault", name="md_setlistdefault", params=[("self.d", _MD_TY), ("key", "Str"), ("default_list", "Option (List ν)")], state=["d"], result="List ν", raises=True,
    effects={"super().__setitem__(key, list(default_list or ()))": [("self.d", "dict_set(self.d, key, list(default_list or ()))")]},
    calls={**_MD_CALLS, "list": Fn("id", [_LNU], _LNU)}, patterns=_MD_READS, **_MD_COMMON,
)


_KV_L = Tup(STR, _LNU)
_MD_POPS = [
    # `super().pop(key)`: the list stored under the key, which is removed (KeyError when absent);
    # `super().pop(key, [])`: the same with a default; `super().popitem()`: the entry inserted last
    (_super_call("pop", 1), Fn("Pre.dictPop", [STR], _LNU, raises=("KeyError",), effect_key="self.d")),
    (_super_call("pop", 2), Fn("Pre.dictPopD", [STR, _LNU], _LNU, effect_key="self.d")),
    (_super_call("popitem", 0), Fn("Pre.dictPopitem", [], _KV_L, raises=("KeyError",), effect_key="self.d")),
]


def md_pop_spec(with_default):
    return Spec(
        qualname="MultiDict.pop", name="md_pop_default" if with_default else "md_pop",
        params=[("self.d", _MD_TY), ("key", "Str"), ("default", "ν" if with_default else "Unit")], state=["d"], result="ν", raises=True,
        static={"default is not _missing": with_default},
        patterns=_MD_POPS,
        doc=f"`MultiDict.pop(key{', default' if with_default else ''})` of src/werkzeug/datastructures/structures.py, translated by tools/py2lean.py",
        **_MD_COMMON,
    )


MD_POP = md_pop_spec(False)
MD_POP_DEFAULT = md_pop_spec(True)
MD_POPLIST = Spec(qualname="MultiDict.poplist", name="md_poplist", params=[("self.d", _MD_TY), ("key", "Str")], state=["d"], result="List ν", patterns=_MD_POPS, **_MD_COMMON)
MD_POPITEM = Spec(qualname="MultiDict.popitem", name="md_popitem", params=[("self.d", _MD_TY)], state=["d"], result="Str × ν", raises=True, patterns=_MD_POPS, locals={"#1": "Str × List ν"}, **_MD_COMMON)  # (locals by position: #1 = item)
MD_POPITEMLIST = Spec(qualname="MultiDict.popitemlist", name="md_popitemlist", params=[("self.d", _MD_TY)], state=["d"], result="Str × List ν", raises=True, patterns=_MD_POPS, **_MD_COMMON)
MD_UPDATE = Spec(
    qualname="MultiDict.update", name="md_update", params=[("self.d", _MD_TY), ("mapping", "List (Str × ν)")], state=["d"], result="Unit",
    # `iter_multi_items(mapping)`: the flat (key, value) pairs - the parameter is that list
    calls={"iter_multi_items": Fn("id", [py2lean.Lst(Tup(STR, _NU))], py2lean.Lst(Tup(STR, _NU))), "self.add": Fn("md_add", [STR, _NU], py2lean.NONE, state=_MD_STATE)},
    **_MD_COMMON,
)
MD_TO_DICT = Spec(
    qualname="MultiDict.to_dict", name="md_to_dict_flat", params=[("self.d", _MD_TY), ("flat", "Bool")], result="Dict Str ν", raises=True,
    static={"flat": True},
    calls={"self.items": Fn("md_items self_d false", [], py2lean.Lst(Tup(STR, _NU)), raises=("IndexError",)), "dict": Fn("Pre.dictOfPairs", [py2lean.Lst(Tup(STR, _NU))], py2lean.Dct(STR, _NU))},
    doc="`MultiDict.to_dict(flat=True)` of src/werkzeug/datastructures/structures.py, translated by tools/py2lean.py",
    **_MD_COMMON,
)
MD_TO_DICT_LISTS = Spec(
    qualname="MultiDict.to_dict", name="md_to_dict_lists", params=[("self.d", _MD_TY), ("flat", "Bool")], result="Dict Str (List ν)",
    static={"flat": False},
    calls={"self.lists": Fn("md_lists self_d", [], py2lean.Lst(Tup(STR, _LNU))), "dict": Fn("Pre.dictOfPairs", [py2lean.Lst(Tup(STR, _LNU))], _MD_T)},
    doc="`MultiDict.to_dict(flat=False)` of src/werkzeug/datastructures/structures.py, translated by tools/py2lean.py",
    **_MD_COMMON,
)


@generator("PyFns_MultiDict")
def gen_multidict():
    return emit_parts("MultiDict", [[MD_GETITEM, MD_SETITEM, MD_ADD, MD_GETLIST, MD_GETLIST_TYPED, MD_SETLIST, MD_SETDEFAULT, MD_SETLISTDEFAULT, MD_LISTS, MD_VALUES, MD_LISTVALUES, MD_ITEMS, MD_TO_DICT, MD_TO_DICT_LISTS, MD_UPDATE, MD_POP, MD_POP_DEFAULT, MD_POPITEM, MD_POPLIST, MD_POPITEMLIST]])


# --------------------------------------------------------------------------
# C15: ProxyFix (middleware/proxy_fix.py)

_PF = "middleware/proxy_fix.py"
PROXY_GET_REAL_VALUE = Spec(
    module=_PF,
    qualname="ProxyFix._get_real_value",
    name="proxy_get_real_value",
    params=[("trusted", "Int"), ("value", "Option Str")],
    result="Option Str",
    raises=True,  # `parse_list_header` / `values[-trusted]` carry IndexError arms (unreachable)
    calls={"parse_list_header": Fn("Gen.PyFns_Http.parse_list_header", [STR], py2lean.Lst(STR), raises=("IndexError",))},
)


def _environ_get(n):
    """`environ_get(K)` / `environ.get(K)` -> [environ, K]"""
    import ast

    # (`environ_get = environ.get` is the only local the function calls: any other plain name called with one argument)
    if isinstance(n, ast.Call) and len(n.args) == 1 and not n.keywords and (py2lean.dotted(n.func) == "environ.get" or (isinstance(n.func, ast.Name) and n.func.id not in ("len", "str", "int", "bool", "list", "tuple"))):
        return [ast.Name(id="environ", ctx=ast.Load()), n.args[0]]
    return None


def _rsplit1(n):
    """`X.rsplit(<sep literal>, 1)` -> [X, sep]"""
    import ast

    if (isinstance(n, ast.Call) and isinstance(n.func, ast.Attribute) and n.func.attr == "rsplit" and len(n.args) == 2 and not n.keywords
            and isinstance(n.args[0], ast.Constant) and isinstance(n.args[0].value, str) and n.args[0].value
            and isinstance(n.args[1], ast.Constant) and n.args[1].value == 1):
        return [n.func.value, n.args[0]]
    return None


_ENV_T = py2lean.Dct(STR, STR)
_GRV = lambda attr: Fn(f"proxy_get_real_value self_{attr}", [Opt(STR)], Opt(STR), raises=("IndexError",))


def _grv_call(attr):
    """`self._get_real_value(self.<attr>, X)` -> [X]"""
    import ast

    def m(n):
        if (isinstance(n, ast.Call) and py2lean.dotted(n.func) == "self._get_real_value" and len(n.args) == 2 and not n.keywords
                and py2lean.dotted(n.args[0]) == "self." + attr):
            return [n.args[1]]
        return None

    return m


def _app_call(n):
    """`self.app(environ, start_response)` -> [environ]: what is handed to the wrapped application"""
    import ast

    if isinstance(n, ast.Call) and py2lean.dotted(n.func) == "self.app" and len(n.args) == 2 and not n.keywords and isinstance(n.args[0], ast.Name) and n.args[0].id == "environ":
        return [n.args[0]]
    return None


PROXY_FIX_CALL = Spec(
    module=_PF,
    qualname="ProxyFix.__call__",
    name="proxy_fix_environ",
    # the environ handed to the wrapped application (`return self.app(environ, start_response)`); its
    # values are texts; the bookkeeping entry "werkzeug.proxy_fix.orig" (a nested dict) is left out
    params=[("self.x_for", "Int"), ("self.x_proto", "Int"), ("self.x_host", "Int"), ("self.x_port", "Int"), ("self.x_prefix", "Int"), ("environ", "Dict Str Str"), ("start_response", "Unit")],
    result="Dict Str Str",
    raises=True,
    effects={
        "$g = environ.get": [],
        _find_stmt_text(_PF, "ProxyFix.__call__", "environ.update({'werkzeug.proxy_fix.orig'") or "environ.update(...)": [],
    },
    patterns=[
        (_environ_get, Fn("Pre.dictGet?", [_ENV_T, STR], Opt(STR))),
        (_rsplit1, Fn("Pre.rsplit1", [STR, STR], py2lean.Lst(STR))),
        (_app_call, Fn("id", [_ENV_T], _ENV_T)),
    ] + [(_grv_call(a), _GRV(a)) for a in ("x_for", "x_proto", "x_host", "x_port", "x_prefix")],
)


@generator("PyFns_ProxyFix")
def gen_proxy_fix():
    return emit_parts("ProxyFix", [[PROXY_GET_REAL_VALUE, PROXY_FIX_CALL]], imports=("WzVerif.Gen.PyFns_Http",))


# --------------------------------------------------------------------------
# C19: WSGIRequestHandler.make_environ (serving.py), up to the TLS client-certificate lookup

_SRV = "serving.py"
URLSPLIT3 = py2lean.record("UrlSplit3", [("scheme", "Str"), ("netloc", "Str"), ("path", "Str"), ("query", "Str")])


def _stmt_text(module, qualname, prefix):
    t = _find_stmt_text(module, qualname, prefix)
    return t if t is not None else prefix + " <statement not found in the current source>"


def _whole_stmt_text(module, qualname, prefix):
    """`ast.unparse` text of the (single) top-level statement of the function whose text starts with `prefix`"""
    import ast

    tr = py2lean.Translator(Spec(module=module, qualname=qualname, name="_", params=[], result="Unit"), REPO)
    fn, _ = tr.find_def()
    hits = [ast.unparse(x) for x in fn.body if ast.unparse(x).startswith(prefix)]
    return hits[0] if len(hits) == 1 else prefix + " <statement not found in the current source>"


def _headers_items(n):
    import ast

    try:
        return [] if ast.unparse(n) == "self.headers.items()" else None
    except Exception:  # noqa: BLE001
        return None


MAKE_ENVIRON = Spec(
    module=_SRV,
    qualname="WSGIRequestHandler.make_environ",
    name="make_environ",
    # the text-valued part of the environ and the `wsgi.input_terminated` decision; `urlsplit` /
    # `unquote` (urllib), the TLS flag, the peer address and the server address are parameters;
    # the message headers are the list of (name, value) pairs `self.headers.items()` yields
    opaque=[
        ("urlsplit", "Pre.Str → Except String (Pre.Str × Pre.Str × Pre.Str × Pre.Str)"), ("unquote", "Pre.Str → Pre.Str"),
        ("tls", "Bool"), ("remote_addr", "Pre.Str"), ("server_name", "Pre.Str"), ("server_port", "Pre.Str"), ("server_version", "Pre.Str"),
        ("headers", "List (Pre.Str × Pre.Str)"),
    ],
    params=[("self.path", "Str"), ("self.command", "Str"), ("self.request_version", "Str")],
    result="Dict Str Str × Bool",
    raises=True,
    init_locals={"terminated_": ("false", "Bool")},
    static={"self.client_address": True, "isinstance(self.client_address, str)": False},  # the peer address is a non-empty (host, port) tuple
    dict_skip_keys=("wsgi.version", "wsgi.input", "wsgi.errors", "wsgi.multithread", "wsgi.multiprocess", "wsgi.run_once", "werkzeug.socket", "REMOTE_PORT"),
    calls={
        "urlsplit": Fn("urlsplit", [STR], URLSPLIT3, raises=("ValueError",)),
        "unquote": Fn("unquote", [STR], STR),
        "_wsgi_encoding_dance": Fn("Gen.PyFns_Url.wsgi_encoding_dance", [STR], STR),
    },
    patterns=[
        (_src_matcher("self.server.ssl_context is None"), Fn("(!tls)", [], BOOL)),
        (_src_matcher("self.server_version"), Fn("server_version", [], STR)),
        (_src_matcher("self.address_string()"), Fn("remote_addr", [], STR)),
        (_src_matcher("self.server.server_address[0]"), Fn("server_name", [], STR)),
        (_src_matcher("str(self.server.server_address[1])"), Fn("server_port", [], STR)),
        (_headers_items, Fn("headers", [], py2lean.Lst(Tup(STR, STR)))),
    ],
    effects={
        "environ['wsgi.input_terminated'] = True": [("terminated_", "True")],
        "environ['wsgi.input'] = DechunkedInput(environ['wsgi.input'])": [],
    },
    stop_at=(_whole_stmt_text(_SRV, "WSGIRequestHandler.make_environ", "try:\n    peer_cert"), "(environ, terminated_)"),
)


@generator("PyFns_MakeEnviron")
def gen_make_environ():
    return emit_parts("MakeEnviron", [[MAKE_ENVIRON]], imports=("WzVerif.Gen.PyFns_Url",))


# --------------------------------------------------------------------------
# C12 / C04: Rule.suitable_for / build_compare_key / provides_defaults_for (routing/rules.py)

_RULES = "routing/rules.py"
_VAL = py2lean.Abs("V")
RULE_SUITABLE_FOR = Spec(
    module=_RULES,
    qualname="Rule.suitable_for",
    name="rule_suitable_for",
    # values of URL variables are of a type parameter; their `==` (`1 == 1.0` …) is a parameter
    type_params=["V"],
    opaque=[("veq", "V → V → Bool")],
    eq_fns={"V": "veq"},
    params=[("self.methods", "Option (List Str)"), ("self.defaults", "Option (Dict Str V)"), ("self.arguments", "List Str"), ("values", "Dict Str V"), ("method", "Option Str")],
    result="Bool",
    raises=True,  # `values[key]` carries a KeyError arm (guarded by `key in values`: unreachable)
)
RULE_BUILD_COMPARE_KEY = Spec(
    module=_RULES,
    qualname="Rule.build_compare_key",
    name="rule_build_compare_key",
    type_params=["V"],
    params=[("self.alias", "Bool"), ("self.arguments", "List Str"), ("self.defaults", "Option (Dict Str V)")],
    result="Int × Int × Int",
)
RULE_PROVIDES_DEFAULTS_FOR = Spec(
    module=_RULES,
    qualname="Rule.provides_defaults_for",
    name="rule_provides_defaults_for",
    # `self.endpoint == rule.endpoint`, `self != rule` (`Rule.__eq__` compares `_trace`) and the set
    # comparison `self.arguments == rule.arguments` are parameters
    type_params=["V"],
    opaque=[("same_endpoint", "Bool"), ("differs", "Bool"), ("same_arguments", "Bool")],
    params=[("self.build_only", "Bool"), ("self.defaults", "Option (Dict Str V)"), ("rule", "Unit")],
    result="Bool",
    patterns=[
        (_src_matcher("self.endpoint == rule.endpoint"), Fn("same_endpoint", [], BOOL)),
        (_src_matcher("self != rule"), Fn("differs", [], BOOL)),
        (_src_matcher("self.arguments == rule.arguments"), Fn("same_arguments", [], BOOL)),
    ],
)


def _make_redirect_call(n):
    """`self.make_redirect_url(P, query_args, domain_part=D)` -> [P, D]"""
    import ast

    if (isinstance(n, ast.Call) and py2lean.dotted(n.func) == "self.make_redirect_url" and len(n.args) == 2 and len(n.keywords) == 1
            and n.keywords[0].arg == "domain_part" and isinstance(n.args[1], ast.Name) and n.args[1].id == "query_args"):
        return [n.args[0], n.keywords[0].value]
    return None


_RABS = py2lean.Abs("R")
_DV = py2lean.Dct(STR, _VAL)
GET_DEFAULT_REDIRECT = Spec(
    module="routing/map.py",
    qualname="MapAdapter.get_default_redirect",
    name="get_default_redirect",
    # rules are values of a type parameter `R`; what is asked of them are parameters: identity with the
    # matched rule, `provides_defaults_for(rule)`, `suitable_for(values, method)`, `defaults`,
    # `build(values)`; `self.map._rules_by_endpoint[rule.endpoint]` is the list `candidates`;
    # `make_redirect_url(path, query_args, domain_part=…)` is `redirect_url path domain_part`
    type_params=["R", "V"],
    opaque=[
        ("candidates", "List R"), ("same_rule", "R → Bool"), ("provides", "R → Bool"),
        ("suitable", "R → List (Pre.Str × V) → Pre.Str → Bool"), ("defaults_of", "R → List (Pre.Str × V)"),
        ("build", "R → List (Pre.Str × V) → Except String (Pre.Str × Pre.Str)"), ("redirect_url", "Pre.Str → Pre.Str → Pre.Str"),
    ],
    params=[("self.map.redirect_defaults", "Bool"), ("rule", "R"), ("method", "Str"), ("values", "Dict Str V"), ("query_args", "Unit")],
    result="Option Str",
    raises=True,
    calls={"dict_update_": Fn("Pre.dictUpdate", [_DV, _DV], _DV), "defaults_of": Fn("defaults_of", [_RABS], _DV)},
    patterns=[
        (_src_matcher("self.map._rules_by_endpoint[rule.endpoint]"), Fn("candidates", [], py2lean.Lst(_RABS))),
        (_src_matcher("$r is rule", args=["r"]), Fn("same_rule", [_RABS], BOOL)),
        (_src_matcher("$r.provides_defaults_for(rule)", args=["r"]), Fn("provides", [_RABS], BOOL)),
        (_src_matcher("$r.suitable_for(values, method)", args=["r", "=values", "=method"]), Fn("suitable", [_RABS, _DV, STR], BOOL)),
        (_src_matcher("$r.build(values)", args=["r", "=values"]), Fn("build", [_RABS, _DV], Tup(STR, STR), raises=("BuildError",))),
        (_make_redirect_call, Fn("redirect_url", [STR, STR], STR)),
    ],
    effects={"values.update($r.defaults)": [("values", "dict_update_(values, defaults_of($r))")]},
)


@generator("PyFns_RoutingRule")
def gen_routing_rule():
    return emit_parts("RoutingRule", [[RULE_SUITABLE_FOR, RULE_BUILD_COMPARE_KEY, RULE_PROVIDES_DEFAULTS_FOR, GET_DEFAULT_REDIRECT]])


# --------------------------------------------------------------------------
# C13: the test client's `Cookie` (test.py): `_matches_request`, `_should_delete`, `_storage_key`

_TEST = "test.py"
COOKIE_MATCHES_REQUEST = Spec(
    module=_TEST,
    qualname="Cookie._matches_request",
    name="cookie_matches_request",
    params=[("self.domain", "Str"), ("self.origin_only", "Bool"), ("self.path", "Str"), ("server_name", "Str"), ("path", "Str")],
    result="Bool",
)
COOKIE_SHOULD_DELETE = Spec(
    module=_TEST,
    qualname="Cookie._should_delete",
    name="cookie_should_delete",
    # `self.expires` (a datetime or None) through its timestamp
    params=[("self.max_age", "Option Int"), ("self.expires", "Option Int")],
    result="Bool",
    decorators=["property"],
    methods={("Int", "timestamp"): Fn("id", [INT], INT)},
)
COOKIE_STORAGE_KEY = Spec(
    module=_TEST,
    qualname="Cookie._storage_key",
    name="cookie_storage_key",
    params=[("self.domain", "Str"), ("self.path", "Str"), ("self.decoded_key", "Str")],
    result="Str × Str × Str",
    decorators=["property"],
)


@generator("PyFns_CookieJar")
def gen_cookie_jar():
    return emit_parts("CookieJar", [[COOKIE_MATCHES_REQUEST, COOKIE_SHOULD_DELETE, COOKIE_STORAGE_KEY]])


# --------------------------------------------------------------------------
# C16 / C06: the accessors behind the `cache_control_property` descriptors
# (`_CacheControl._get_cache_value / _set_cache_value / _del_cache_value`, datastructures/cache_control.py):
# one translation per property type (`bool`, `int`, `None` = str); the object is its dict of
# `str | None` values, handed over as the attribute `self.d`

_CC = "datastructures/cache_control.py"
_CCD = "Dict Str (Option Str)"
_CCD_T = py2lean.Dct(STR, Opt(STR))
_CC_COMMON = dict(module=_CC, in_ops={"self": Fn("Pre.dictHas self_d", [STR], BOOL)})
_CC_GETITEM = (_self_item, Fn("Pre.dictGetItem", [_CCD_T, STR], Opt(STR), raises=("KeyError",)))
_CC_CALLS = {
    "dict_set_": Fn("Pre.dictSet", [_CCD_T, STR, Opt(STR)], _CCD_T),
    "dict_del_": Fn("Pre.dictDel", [_CCD_T, STR], _CCD_T),
}
_CC_EFFECTS = {
    "self[key] = None": [("self.d", "dict_set_(self.d, key, None)")],
    "self.pop(key, None)": [("self.d", "dict_del_(self.d, key)")],
    "self[key] = str(value)": [("self.d", "dict_set_(self.d, key, str(value))")],
    "del self[key]": [("self.d", "dict_del_(self.d, key)")],
}


def cc_get_spec(kind):
    res = {"bool": "Bool", "int": "Option Int", "str": "Option Str"}[kind]
    return Spec(
        qualname="_CacheControl._get_cache_value", name="cc_get_" + kind,
        params=[("self.d", _CCD), ("key", "Str"), ("empty", "Unit" if kind == "bool" else res), ("type", "Unit")],
        result=res, raises=True, retype=["*"],
        static={"type is bool": kind == "bool", "type is not None": kind == "int"},
        # `type(value)` for `type` = int: `int(text)` through C06's hand model `pyInt`
        patterns=[_CC_GETITEM, (_src_matcher("type($v)", args=["v"]), Fn("Wz.Http.pyInt", [STR], INT, raises=("ValueError",)))],
        doc=f"`_CacheControl._get_cache_value(key, empty, type)` of src/werkzeug/datastructures/cache_control.py for `type` = {'bool' if kind == 'bool' else ('int' if kind == 'int' else 'None (a str property)')}, translated by tools/py2lean.py",
        **_CC_COMMON,
    )


def cc_set_spec(kind):
    vty = {"bool": "Bool", "int": "Option Int", "str": "Option Str"}[kind]
    return Spec(
        qualname="_CacheControl._set_cache_value", name="cc_set_" + kind,
        params=[("self.d", _CCD), ("key", "Str"), ("value", vty), ("type", "Unit")],
        state=["d"], result="Unit",
        static={"type is bool": kind == "bool", "type is not None": kind == "int"},
        effects=_CC_EFFECTS,
        calls=_CC_CALLS,
        patterns=[(_src_matcher("type($v)", args=["v"]), Fn("id", [INT], INT))],  # `int(n)` of an int
        doc=f"`_CacheControl._set_cache_value(key, value, type)` of src/werkzeug/datastructures/cache_control.py for `type` = {'bool' if kind == 'bool' else ('int' if kind == 'int' else 'None (a str property)')} and a value of that type (or None), translated by tools/py2lean.py",
        **_CC_COMMON,
    )


CC_GET_BOOL, CC_GET_INT, CC_GET_STR = cc_get_spec("bool"), cc_get_spec("int"), cc_get_spec("str")
CC_SET_BOOL, CC_SET_INT, CC_SET_STR = cc_set_spec("bool"), cc_set_spec("int"), cc_set_spec("str")
CC_DEL = Spec(qualname="_CacheControl._del_cache_value", name="cc_del", params=[("self.d", _CCD), ("key", "Str")], state=["d"], result="Unit", effects=_CC_EFFECTS, calls=_CC_CALLS, **_CC_COMMON)


@generator("PyFns_CacheControl")
def gen_cache_control():
    return emit_parts("CacheControl", [[CC_GET_BOOL, CC_GET_INT, CC_GET_STR, CC_SET_BOOL, CC_SET_INT, CC_SET_STR, CC_DEL]], imports=("WzVerif.Model.Http",))


# --------------------------------------------------------------------------
# C11: IfRange.to_header (datastructures/range.py)

IF_RANGE_TO_HEADER = Spec(
    module="datastructures/range.py",
    qualname="IfRange.to_header",
    name="if_range_to_header",
    # the date is an instant (an integer, as for `IfRange.__init__` / `parse_if_range_header`);
    # `http.http_date` stays a parameter
    opaque=[("http_date", "Int → Pre.Str")],
    params=[("self.date", "Option Int"), ("self.etag", "Option Str")],
    result="Str",
    raises=True,
    calls={
        "http.http_date": Fn("http_date", [INT], STR),
        "http.quote_etag": Fn("Gen.PyFns_Http.quote_etag", [STR, BOOL], STR, raises=("ValueError",), defaults_from=("http.py", "quote_etag")),
    },
)


@generator("PyFns_IfRange")
def gen_if_range():
    return emit_parts("IfRange", [[IF_RANGE_TO_HEADER]], imports=("WzVerif.Gen.PyFns_Http",))


# --------------------------------------------------------------------------
# C10 / C02: small request-side glue: `MultiPartParser.get_part_charset` (formparser.py),
# `Request.want_form_data_parsed` (wrappers/request.py)

GET_PART_CHARSET = Spec(
    module="formparser.py",
    qualname="MultiPartParser.get_part_charset",
    name="get_part_charset",
    # `headers` is the list of (name, value) pairs (`Headers.get`: first value, names compared
    # case-insensitively); `parse_options_header` stays a parameter
    opaque=[("parse_options", "Pre.Str → Except String (Pre.Str × List (Pre.Str × Pre.Str))"), ("headers_get", "List (Pre.Str × Pre.Str) → Pre.Str → Option Pre.Str")],
    params=[("headers", "List (Str × Str)")],
    result="Str",
    raises=True,
    calls={"parse_options_header": Fn("parse_options", [STR], Tup(STR, py2lean.Dct(STR, STR)), raises=("ValueError",))},
    patterns=[(_src_matcher("headers.get('content-type')"), Fn("headers_get headers ['c', 'o', 'n', 't', 'e', 'n', 't', '-', 't', 'y', 'p', 'e']", [], Opt(STR)))],
)
WANT_FORM_DATA_PARSED = Spec(
    module="wrappers/request.py",
    qualname="Request.want_form_data_parsed",
    name="want_form_data_parsed",
    params=[("self.environ", "Dict Str Str")],
    result="Bool",
    decorators=["property"],
)


@generator("PyFns_FormGlue")
def gen_form_glue():
    return emit_parts("FormGlue", [[GET_PART_CHARSET, WANT_FORM_DATA_PARSED]])


# --------------------------------------------------------------------------
# C15: test._make_base_url


def _urlunsplit5_all(n):
    """`urlunsplit((a, b, c, d, e))` -> [a, b, c, d, e]"""
    import ast

    if (isinstance(n, ast.Call) and isinstance(n.func, ast.Name) and n.func.id == "urlunsplit" and len(n.args) == 1 and not n.keywords
            and isinstance(n.args[0], ast.Tuple) and len(n.args[0].elts) == 5):
        return list(n.args[0].elts)
    return None


MAKE_BASE_URL = Spec(
    module="test.py",
    qualname="EnvironBuilder._make_base_url",
    name="make_base_url",
    opaque=[("urlunsplit", "Pre.Str → Pre.Str → Pre.Str → Pre.Str → Pre.Str → Pre.Str")],  # urllib
    params=[("scheme", "Str"), ("host", "Str"), ("script_root", "Str")],
    result="Str",
    patterns=[(_urlunsplit5_all, Fn("urlunsplit", [STR, STR, STR, STR, STR], STR))],
)


@generator("PyFns_BaseUrl")
def gen_base_url():
    return emit_parts("BaseUrl", [[MAKE_BASE_URL]])


# --------------------------------------------------------------------------
# C04: number converters

NUMBER_TO_PYTHON = Spec(
    module="routing/converters.py",
    qualname="NumberConverter.to_python",
    name="number_to_python",
    # `self.num_convert` (int for IntegerConverter) stays a parameter: text -> number or ValueError
    opaque=[("num_convert", "Pre.Str → Except String Int")],
    params=[("self.fixed_digits", "Int"), ("self.min", "Option Int"), ("self.max", "Option Int"), ("value", "Str")],
    result="Int",
    raises=True,
    calls={"self.num_convert": Fn("num_convert", [STR], INT, raises=("ValueError",))},
)

NUMBER_TO_URL = Spec(
    module="routing/converters.py",
    qualname="NumberConverter.to_url",
    name="number_to_url",
    # for an `int` value `self.num_convert(value)` = `int(value)` is the value itself
    params=[("self.fixed_digits", "Int"), ("value", "Int")],
    result="Str",
    calls={"self.num_convert": Fn("id", [INT], INT)},
)


_CONV = "routing/converters.py"
_RQUOTE = Fn("quoteL", [STR, STR], STR)
BASE_TO_PYTHON = Spec(module=_CONV, qualname="BaseConverter.to_python", name="base_to_python", params=[("value", "Str")], result="Str")
BASE_TO_URL = Spec(
    module=_CONV, qualname="BaseConverter.to_url", name="base_to_url",
    # `value: t.Any` restricted to str: `str(value)` is the identity
    params=[("value", "Str")], result="Str",
    patterns=[(_quote_safe, _RQUOTE)],
)
UNICODE_INIT = Spec(
    module=_CONV, qualname="UnicodeConverter.__init__", name="unicode_init",
    params=[("map", "Unit"), ("minlength", "Int"), ("maxlength", "Option Int"), ("length", "Option Int")],
    fields=["regex"], result="Str",
    # `super().__init__(map)` only stores the map
    effects={"super().__init__(map)": []},
    calls={"int": Fn("id", [INT], INT)},
)


def _set_call(n):
    """`set(X)` -> [X]"""
    import ast

    if isinstance(n, ast.Call) and isinstance(n.func, ast.Name) and n.func.id == "set" and len(n.args) == 1 and not n.keywords:
        return [n.args[0]]
    return None


ANY_INIT = Spec(
    module=_CONV, qualname="AnyConverter.__init__", name="any_init",
    params=[("map", "Unit"), ("*items", "List Str")],
    fields=["items", "regex"], result="Set Str × Str",
    effects={"super().__init__(map)": []},
    # `re.escape`: the model's `reEscape` over the regenerated set of special characters
    calls={"re.escape": Fn("Wz.Routing.reEscape", [STR], STR)},
    patterns=[(_set_call, Fn("Pre.frozenset", [py2lean.Lst(STR)], py2lean.Ty("Set", (STR,))))],
)
ANY_TO_URL = Spec(
    module=_CONV, qualname="AnyConverter.to_url", name="any_to_url",
    params=[("self.items", "Set Str"), ("value", "Str")], result="Str", raises=True,
    calls={"sorted": Fn("Pre.sortedStr", [py2lean.Ty("Set", (STR,))], py2lean.Lst(STR))},
    patterns=[(_src_matcher("super().to_url(value)"), Fn("base_to_url value", [], STR))],
)
NUMBER_SIGNED_REGEX = Spec(module=_CONV, qualname="NumberConverter.signed_regex", name="number_signed_regex", params=[("self.regex", "Str")], result="Str", decorators=["property"])
NUMBER_INIT = Spec(
    module=_CONV, qualname="NumberConverter.__init__", name="number_init",
    # `self.regex` before the call = the class attribute (`\\d+` / `\\d+\\.\\d+`)
    params=[("self.regex", "Str"), ("map", "Unit"), ("fixed_digits", "Int"), ("min", "Option Int"), ("max", "Option Int"), ("signed", "Bool")],
    fields=["regex", "fixed_digits", "min", "max", "signed"], result="Str × Int × Option Int × Option Int × Bool",
    effects={"super().__init__(map)": []},
    patterns=[(_src_matcher("self.signed_regex"), Fn("number_signed_regex self_regex", [], STR))],
)


@generator("PyFns_Routing")
def gen_routing():
    extra = """/-- `urllib.parse.quote(s, safe=lit)` through the routing model's `quote` (the literal as text) -/
def quoteL (safe s : Pre.Str) : Pre.Str := Wz.Routing.quote (String.ofList safe) s

"""
    return emit("Routing", [NUMBER_TO_PYTHON, NUMBER_TO_URL, BASE_TO_PYTHON, BASE_TO_URL, UNICODE_INIT, ANY_INIT, ANY_TO_URL, NUMBER_SIGNED_REGEX, NUMBER_INIT], imports=["WzVerif.Model.RoutingUrl"], extra=extra)


# --------------------------------------------------------------------------
# C17: content negotiation (datastructures/accept.py)

from py2lean import Abs, Lst  # noqa: E402

_K, _S = Abs("κ"), Abs("σ")
_ACC = dict(
    module="datastructures/accept.py",
    # the class-specific parts (`_specificity`, `_value_matches`, the orders on qualities and on
    # specificity tuples, the quality 0) are the fields of the model's `Neg` structure
    type_params=["σ", "κ"],
    orders={"κ": "N.qle", "σ": "N.sle"},
)
_ACC_CALLS = {
    "self._value_matches": Fn("N.matches", [STR, STR], BOOL),
    "self._specificity": Fn("N.spec", [STR], _S),
}
_SELF = ("self", "List (Str × κ)")
_N = ("N", "Wz.Accept.Neg σ κ")

ACC_BEST_SINGLE = Spec(qualname="Accept._best_single_match", name="best_single_match", opaque=[_N],
                       params=[_SELF, ("match", "Str")], result="Option (Str × κ)", calls=_ACC_CALLS, **_ACC)
ACC_QUALITY = Spec(qualname="Accept.quality", name="quality", opaque=[_N], params=[_SELF, ("key", "Str")],
                   result="κ", calls=_ACC_CALLS, abs_lits={("κ", 0): "N.zero"}, **_ACC)
ACC_CONTAINS = Spec(qualname="Accept.__contains__", name="contains", opaque=[_N], params=[_SELF, ("value", "Str")],
                    result="Bool", calls=_ACC_CALLS, **_ACC)
ACC_INDEX = Spec(qualname="Accept.index", name="index", opaque=[_N], params=[_SELF, ("key", "Str")],
                 result="Int", raises=True, calls=_ACC_CALLS, **_ACC)
ACC_FIND = Spec(qualname="Accept.find", name="find", opaque=[_N], params=[_SELF, ("key", "Str")], result="Int",
                calls={"self.index": Fn("index", [STR], INT, raises=("ValueError",), extra=("N", "self"))}, **_ACC)
ACC_BEST_MATCH = Spec(
    qualname="Accept.best_match",
    name="best_match",
    # the sentinels `best_quality = -1` and `best_specificity = (-1,)` are parameters (any quality
    # below 0 / any specificity: Props/C17T states what is assumed of them)
    opaque=[_N, ("qm1", "κ"), ("sm1", "σ")],
    params=[_SELF, ("matches", "List Str"), ("default", "Option Str")],
    result="Option Str",
    locals={"#2": "κ", "#3": "σ"},  # (locals by position: #2 = best_quality, #3 = best_specificity)
    abs_lits={("κ", 0): "N.zero", ("κ", -1): "qm1"},
    literals={"(-1,)": ("sm1", "σ")},
    calls=dict(_ACC_CALLS, **{"self._best_single_match": Fn("best_single_match", [STR], Opt(Tup(STR, _K)), extra=("N", "self"))}),
    **_ACC,
)




def _super_best_match(n):
    """`super().best_match(X)` -> [X, None] (default=None)"""
    import ast

    f = n.func if isinstance(n, ast.Call) else None
    if not (isinstance(f, ast.Attribute) and f.attr == "best_match" and isinstance(f.value, ast.Call) and isinstance(f.value.func, ast.Name) and f.value.func.id == "super" and not f.value.args):
        return None
    if len(n.args) != 1 or n.keywords:
        return None
    return [n.args[0], ast.Constant(value=None)]


def _obj_best_match(n):
    """`<name>.best_match(X)` on a local Accept object -> [<name>, X, None]"""
    import ast

    f = n.func if isinstance(n, ast.Call) else None
    if not (isinstance(f, ast.Attribute) and f.attr == "best_match" and isinstance(f.value, ast.Name) and f.value.id != "self"):
        return None
    if len(n.args) != 1 or n.keywords:
        return None
    return [f.value, n.args[0], ast.Constant(value=None)]


def _primary_tag(n):
    """`_locale_delim_re.split(X, 1)[0]` -> [X]: the text before the first `_` or `-`"""
    import ast

    if not (isinstance(n, ast.Subscript) and isinstance(n.slice, ast.Constant) and n.slice.value == 0 and type(n.slice.value) is int):
        return None
    c = n.value
    if not (isinstance(c, ast.Call) and py2lean.dotted(c.func) == "_locale_delim_re.split" and len(c.args) == 2 and not c.keywords):
        return None
    if not (isinstance(c.args[1], ast.Constant) and c.args[1].value == 1 and type(c.args[1].value) is int):
        return None
    return [c.args[0]]


_LSK = Lst(Tup(STR, _K))
LANG_BEST_MATCH = Spec(
    qualname="LanguageAccept.best_match",
    name="lang_best_match",
    # N: the LanguageAccept class, A: the plain Accept class (for the `fallback` object);
    # `Accept(values)` is the model's stable descending sort `mk A`
    opaque=[_N, ("A", "Wz.Accept.Neg σ κ"), ("qm1", "κ"), ("sm1", "σ")],
    params=[_SELF, ("matches", "List Str"), ("default", "Option Str")],
    result="Option Str",
    raises=True,  # next(...) raises StopIteration when nothing is found: proved impossible
    abs_lits={("κ", 0): "N.zero"},
    calls={
        "self._best_single_match": Fn("best_single_match", [STR], Opt(Tup(STR, _K)), extra=("N", "self")),
        "Accept": Fn("Wz.Accept.mk A", [_LSK], _LSK),
    },
    patterns=[
        (_super_best_match, Fn("best_match N qm1 sm1 self", [Lst(STR), Opt(STR)], Opt(STR))),
        (_obj_best_match, Fn("best_match A qm1 sm1", [_LSK, Lst(STR), Opt(STR)], Opt(STR))),
        # `_locale_delim_re = re.compile(r"[_-]")`: pinned by `localeDelimRe`
        (_primary_tag, Fn("Wz.Accept.primaryTag", [STR], STR)),
    ],
    **_ACC,
)


# --- the class-specific parts and the small accessors (round 3)
_ACCM = "datastructures/accept.py"
ACC_SPECIFICITY = Spec(module=_ACCM, qualname="Accept._specificity", name="accept_specificity", params=[("value", "Str")], result="List Bool")
ACC_VALUE_MATCHES = Spec(module=_ACCM, qualname="Accept._value_matches", name="accept_value_matches", params=[("value", "Str"), ("item", "Str")], result="Bool")
NORMALIZE_MIME = Spec(
    module=_ACCM, qualname="_normalize_mime", name="normalize_mime", params=[("value", "Str")], result="List Str",
    # `_mime_split_re.split`: the model's `mimeSplit` (pattern source pinned by `mimeSplitRe`)
    calls={"_mime_split_re.split": Fn("Wz.Accept.mimeSplit", [STR], Lst(STR))},
)
MIME_SPECIFICITY = Spec(
    module=_ACCM, qualname="MIMEAccept._specificity", name="mime_specificity", params=[("value", "Str")], result="List Bool",
    calls={"_mime_split_re.split": Fn("Wz.Accept.mimeSplit", [STR], Lst(STR))},
)
MIME_VALUE_MATCHES = Spec(
    module=_ACCM, qualname="MIMEAccept._value_matches", name="mime_value_matches", params=[("value", "Str"), ("item", "Str")], result="Bool",
    raises=True,  # the documented ValueError for an invalid offer; the two-way unpackings are proved safe
    calls={"_normalize_mime": Fn("normalize_mime", [STR], Lst(STR)), "sorted": Fn("Pre.sortedStr", [Lst(STR)], Lst(STR))},
)
NORMALIZE_LANG = Spec(
    module=_ACCM, qualname="_normalize_lang", name="normalize_lang", params=[("value", "Str")], result="List Str",
    calls={"_locale_delim_re.split": Fn("splitLangRe", [STR], Lst(STR))},
)
LANG_VALUE_MATCHES = Spec(
    module=_ACCM, qualname="LanguageAccept._value_matches", name="lang_value_matches", params=[("value", "Str"), ("item", "Str")], result="Bool",
    calls={"_normalize_lang": Fn("normalize_lang", [STR], Lst(STR))},
)


def _codecs_lookup_name(n):
    """`codecs.lookup(X).name` -> [X]"""
    import ast

    if isinstance(n, ast.Attribute) and n.attr == "name" and isinstance(n.value, ast.Call) and py2lean.dotted(n.value.func) == "codecs.lookup" and len(n.value.args) == 1 and not n.value.keywords:
        return [n.value.args[0]]
    return None


CHARSET_VALUE_MATCHES = Spec(
    module=_ACCM, qualname="CharsetAccept._value_matches", name="charset_value_matches",
    # the codec registry is a parameter: name -> canonical name, None = LookupError
    opaque=[("codec_name", "Pre.Str → Option Pre.Str")],
    params=[("value", "Str"), ("item", "Str")], result="Bool",
    nested={"_normalize": ([("name", "Str")], "Str")},
    patterns=[(_codecs_lookup_name, Fn("codecLookupName codec_name", [STR], STR, raises=("LookupError",)))],
)
ACC_VALUES = Spec(qualname="Accept.values", name="values", opaque=[], params=[_SELF], result="List Str", type_params=["κ"], module=_ACCM)
ACC_BEST = Spec(qualname="Accept.best", name="best", params=[_SELF], result="Option Str", raises=True, type_params=["κ"], module=_ACCM, decorators=["property"])
ACC_TO_HEADER = Spec(
    qualname="Accept.to_header", name="to_header",
    # `f"{value};q={quality}"` prints the float: `qstr`; `quality != 1` through the order
    opaque=[_N, ("qone", "κ"), ("qstr", "κ → Pre.Str")],
    params=[_SELF], result="Str", locals={"[]#1": "List Str"},  # (locals by start value / position: #1 = result)
    abs_lits={("κ", 1): "qone"}, abs_str={"κ": "qstr"}, **_ACC,
)
ACC_GETITEM_STR = Spec(
    qualname="Accept.__getitem__", name="getitem_str", opaque=[_N], params=[_SELF, ("key", "Str")], result="κ",
    calls={"self.quality": Fn("quality", [STR], _K, extra=("N", "self"))}, **_ACC,
)
_MIME_IN = {"self": Fn("contains N self", [STR], BOOL)}
MIME_ACCEPT_XHTML = Spec(qualname="MIMEAccept.accept_xhtml", name="accept_xhtml", opaque=[_N], params=[_SELF], result="Bool", in_ops=_MIME_IN, decorators=["property"], **_ACC)
MIME_ACCEPT_HTML = Spec(
    qualname="MIMEAccept.accept_html", name="accept_html", opaque=[_N], params=[_SELF], result="Bool", in_ops=_MIME_IN, decorators=["property"],
    patterns=[(_src_matcher("self.accept_xhtml"), Fn("accept_xhtml N self", [], BOOL))], **_ACC,
)
MIME_ACCEPT_JSON = Spec(qualname="MIMEAccept.accept_json", name="accept_json", opaque=[_N], params=[_SELF], result="Bool", in_ops=_MIME_IN, decorators=["property"], **_ACC)


@generator("PyFns_Accept")
def gen_accept():
    extra = regex_const("werkzeug.datastructures.accept", "_locale_delim_re", "localeDelimRe")
    extra += regex_const("werkzeug.datastructures.accept", "_mime_split_re", "mimeSplitRe")
    extra += """/-- `_locale_delim_re.split(s)` (`[_-]`): the model's `splitLang` -/
def splitLangRe (s : Pre.Str) : List Pre.Str := Wz.Accept.splitLang s []

/-- `codecs.lookup(name).name` for a codec registry given as a lookup function: LookupError when unknown -/
def codecLookupName (reg : Pre.Str → Option Pre.Str) (name : Pre.Str) : Except String Pre.Str :=
  match reg name with
  | some n => .ok n
  | none => .error "LookupError"

"""
    return emit(
        "Accept",
        [ACC_BEST_SINGLE, ACC_QUALITY, ACC_CONTAINS, ACC_INDEX, ACC_FIND, ACC_BEST_MATCH, LANG_BEST_MATCH,
         ACC_SPECIFICITY, ACC_VALUE_MATCHES, NORMALIZE_MIME, MIME_SPECIFICITY, MIME_VALUE_MATCHES, NORMALIZE_LANG, LANG_VALUE_MATCHES,
         CHARSET_VALUE_MATCHES, ACC_VALUES, ACC_BEST, ACC_TO_HEADER, ACC_GETITEM_STR, MIME_ACCEPT_XHTML, MIME_ACCEPT_HTML, MIME_ACCEPT_JSON],
        imports=["WzVerif.Model.Accept"], extra=extra)


# --------------------------------------------------------------------------
# C08: Headers / HeaderSet (stateful methods)

_HL = "List (Str × Str)"
STR_HEADER_VALUE = Spec(
    module="datastructures/headers.py",
    qualname="_str_header_value",
    name="str_header_value",
    # `value: t.Any` is restricted to str (the model receives the text): `str(value)` is not reached
    params=[("value", "Str")],
    result="Str",
    raises=True,
    # `_newline_re = re.compile(r"[\r\n]")`: pinned by `newlineRe`
    calls={"_newline_re.search": Fn("Pre.newlineReSearch", [STR], Opt(py2lean.OBJ))},
)
_SHV = Fn("str_header_value", [STR], STR, raises=("ValueError",))
HEADERS_ADD = Spec(
    module="datastructures/headers.py",
    qualname="Headers.add",
    name="headers_add",
    params=[("self._list", _HL), ("key", "Str"), ("value", "Str")],
    state=["_list"],
    result="Unit",
    raises=True,
    static={"kwargs": False},  # called without keyword arguments
    calls={"_str_header_value": _SHV},
)
HEADERS_DEL_KEY = Spec(
    module="datastructures/headers.py",
    qualname="Headers._del_key",
    name="headers_del_key",
    params=[("self._list", _HL), ("key", "Str")],
    state=["_list"],
    locals={"[]#1": _HL},  # (locals by start value / position: #1 = new)
    result="Unit",
)
HEADERS_REMOVE = Spec(
    module="datastructures/headers.py",
    qualname="Headers.remove",
    name="headers_remove",
    params=[("self._list", _HL), ("key", "Str")],
    state=["_list"],
    result="Unit",
    calls={"self._del_key": Fn("headers_del_key", [STR], py2lean.NONE, state=("self._list",))},
)


HEADERS_SET = Spec(
    module="datastructures/headers.py",
    qualname="Headers.set",
    name="headers_set",
    params=[("self._list", _HL), ("key", "Str"), ("value", "Str")],
    state=["_list"],
    result="Unit",
    raises=True,
    static={"kwargs": False},
    calls={"_str_header_value": _SHV},
)


@generator("PyFns_Headers")
def gen_headers():
    extra = regex_const("werkzeug.datastructures.headers", "_newline_re", "newlineRe")
    return emit("Headers", [STR_HEADER_VALUE, HEADERS_ADD, HEADERS_DEL_KEY, HEADERS_REMOVE, HEADERS_SET], imports=["WzVerif.Model.Headers"], extra=extra)


# --- HeaderSet (structures.py): state `_headers`, `_set` and the flag "on_update was called"

_HS_PARAMS = [("self._headers", "List Str"), ("self._set", "Set Str"), ("self.notified", "Bool")]
_HS_KEYS = ("self._headers", "self._set", "self.notified")
_HS = dict(
    module="datastructures/structures.py",
    state=["_headers", "_set", "notified"],
    # an `on_update` callback is installed (as in the model); calling it is modelled as a flag
    static={"self.on_update is not None": True},
    effects={"self.on_update(self)": [("self.notified", "True")]},
)
HS_UPDATE = Spec(qualname="HeaderSet.update", name="hs_update", params=_HS_PARAMS + [("iterable", "List Str")], result="Unit", **_HS)
HS_ADD = Spec(qualname="HeaderSet.add", name="hs_add", params=_HS_PARAMS + [("header", "Str")], result="Unit",
              calls={"self.update": Fn("hs_update", [Lst(STR)], py2lean.NONE, state=_HS_KEYS)}, **_HS)
HS_REMOVE = Spec(qualname="HeaderSet.remove", name="hs_remove", params=_HS_PARAMS + [("header", "Str")], result="Unit", raises=True, **_HS)
HS_DISCARD = Spec(qualname="HeaderSet.discard", name="hs_discard", params=_HS_PARAMS + [("header", "Str")], result="Unit",
                  calls={"self.remove": Fn("hs_remove", [STR], py2lean.NONE, raises=("KeyError",), state=_HS_KEYS)}, **_HS)
HS_SETITEM = Spec(qualname="HeaderSet.__setitem__", name="hs_setitem", params=_HS_PARAMS + [("idx", "Int"), ("value", "Str")], result="Unit", raises=True, **_HS)


@generator("PyFns_HeaderSet")
def gen_headerset():
    return emit("HeaderSet", [HS_UPDATE, HS_ADD, HS_REMOVE, HS_DISCARD, HS_SETITEM])


# --------------------------------------------------------------------------
# C19: DechunkedInput (serving.py): state `_done`, `_len`; the collaborator `_rfile` is the list
# of bytes still to come (`wire`), as in Model/Chunked.lean; the caller's buffer is handed back

def _decode_latin1(n):
    m = chain_matcher(("decode", ("latin1",)))
    return m(n)


def _int16(n):
    """`int(X, 16)` -> [X]"""
    import ast

    if isinstance(n, ast.Call) and isinstance(n.func, ast.Name) and n.func.id == "int" and len(n.args) == 2 and not n.keywords:
        b = n.args[1]
        if isinstance(b, ast.Constant) and b.value == 16 and type(b.value) is int:
            return [n.args[0]]
    return None


_RFILE = {
    "self._rfile.readline": Fn("Wz.Chunked.readline", [], py2lean.BYTES, effect_key="self.wire"),
    "self._rfile.read": Fn("rfileRead", [INT], py2lean.BYTES, effect_key="self.wire"),
}
_C19_PATTERNS = [
    (_decode_latin1, Fn("Wz.Py.latin1Dec", [py2lean.BYTES], STR)),
    # int(text, 16): the hand model's `pyInt16` (validated by stream chunklen), ValueError for none
    (_int16, Fn("int16", [STR], INT, raises=("ValueError",))),
]
READ_CHUNK_LEN = Spec(
    module="serving.py",
    qualname="DechunkedInput.read_chunk_len",
    name="read_chunk_len",
    params=[("self.wire", "Bytes")],
    state=["wire"],
    result="Int",
    raises=True,
    calls=_RFILE,
    patterns=_C19_PATTERNS,
)
DECHUNK_READINTO = Spec(
    module="serving.py",
    qualname="DechunkedInput.readinto",
    name="readinto",
    params=[("self._done", "Bool"), ("self._len", "Int"), ("self.wire", "Bytes"), ("buf", "Bytes")],
    state=["_done", "_len", "wire", "buf"],
    result="Int",
    raises=True,
    calls=dict(_RFILE, **{"self.read_chunk_len": Fn("read_chunk_len", [], INT, raises=("OSError",), state=("self.wire",))}),
    patterns=_C19_PATTERNS,
)


@generator("PyFns_Chunked")
def gen_chunked():
    extra = """/-- `rfile.read(n)` on the bytes still to come: `n` bytes unless the stream ends first (the
convention of Model/Chunked.lean); `(data, rest)` -/
def rfileRead (wire : Bytes) (n : Int) : Bytes × Bytes := (wire.take n.toNat, wire.drop n.toNat)

/-- `int(text, 16)`: the hand model's `pyInt16`, `ValueError` where it answers `none` -/
def int16 (s : Pre.Str) : Except String Int :=
  match Wz.Chunked.pyInt16 s with
  | some i => .ok i
  | none => .error "ValueError"

"""
    return emit("Chunked", [READ_CHUNK_LEN, DECHUNK_READINTO], imports=["WzVerif.Model.Chunked"], extra=extra)
