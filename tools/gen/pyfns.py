"""Definitions regenerated from werkzeug's source by tools/py2lean.py: `Gen/PyFns_<topic>.lean`.

One file per property topic so that rebuilds stay local. Each generator lists the functions it
translates with their signature spec; a function outside py2lean's subset makes the generator
raise `Untranslatable`, which the check reports as a broken obligation (`<extract> ...`).
"""
import os
import sys

sys.path.insert(0, os.path.dirname(os.path.dirname(os.path.abspath(__file__))))
import py2lean  # noqa: E402
from extract_lib import REPO, generator, lean_str, write  # noqa: E402
from py2lean import BOOL, INT, STR, Fn, Opt, Spec, Tup, chain_matcher  # noqa: E402

HEAD = """import WzVerif.Util.PyPrelude
{imports}set_option linter.unusedVariables false
namespace Wz.Gen.PyFns_{topic}
open Wz

"""


def emit(topic, specs, imports=(), extra=""):
    parts = [extra] if extra else []
    srcs = []
    for sp in specs:
        try:
            parts.append(py2lean.translate(sp, REPO))
        except py2lean.Untranslatable as e:
            # fail loudly, but locally: the definition is left out, so exactly the obligations of
            # Props/C<NN>T that mention it break (the other theorems of the property, the model
            # driver and the streams keep running); the reason is recorded in the generated file
            msg = str(e).replace("-/", "- /")
            print(f"extract: PyFns_{topic}: `{sp.name}` is UNTRANSLATABLE: {msg}")
            parts.append(f"/- UNTRANSLATABLE by tools/py2lean.py: {msg}\n   The definition `{sp.name}` is therefore missing: every obligation that mentions it is broken. -/\n")
        s = "src/werkzeug/" + sp.module
        if s not in srcs:
            srcs.append(s)
    body = HEAD.format(topic=topic, imports="".join(f"import {i}\n" for i in imports)) + "\n".join(parts) + f"\nend Wz.Gen.PyFns_{topic}\n"
    return write(f"PyFns_{topic}", body, ", ".join(srcs) + " (tools/py2lean.py)")


# --------------------------------------------------------------------------
# werkzeug._internal._plain_int (used by C09, C11)

PLAIN_INT = Spec(
    module="_internal.py",
    qualname="_plain_int",
    name="plain_int",
    params=[("value", "Str")],
    result="Int",
    raises=True,
)
PLAIN_INT_FN = Fn("Gen.PyFns_Internal.plain_int", [STR], INT, raises=("ValueError",))


def regex_const(module, name, lean):
    """pin the source of a module-level compiled regex the translation maps to a prelude matcher"""
    import importlib

    rx = getattr(importlib.import_module(module), name)
    return f"""/-- `{module}.{name}`: (pattern source, flags) - the translation maps its methods to a
hand-written matcher of the prelude, which is only right for this source -/
def {lean} : String × Nat := ({lean_str(rx.pattern)}, {int(rx.flags)})

"""


@generator("PyFns_Internal")
def gen_internal():
    return emit("Internal", [PLAIN_INT], extra=regex_const("werkzeug._internal", "_plain_int_re", "plainIntRe"))


# --------------------------------------------------------------------------
# C11: ranges

IS_BYTE_RANGE_VALID = Spec(
    module="http.py",
    qualname="is_byte_range_valid",
    name="is_byte_range_valid",
    params=[("start", "Option Int"), ("stop", "Option Int"), ("length", "Option Int")],
    result="Bool",
)


RANGE_FOR_LENGTH = Spec(
    module="datastructures/range.py",
    qualname="Range.range_for_length",
    name="range_for_length",
    params=[("self.units", "Str"), ("self.ranges", "List (Int × Option Int)"), ("length", "Option Int")],
    result="Option (Int × Int)",
    raises=True,  # self.ranges[0] raises IndexError for an empty list: proved impossible
    calls={"http.is_byte_range_valid": Fn("is_byte_range_valid", [Opt(INT), Opt(INT), Opt(INT)], BOOL)},
)


RANGES_TY = "List (Int × Option Int)"

RANGE_INIT = Spec(
    module="datastructures/range.py",
    qualname="Range.__init__",
    name="range_init",
    params=[("units", "Str"), ("ranges", RANGES_TY)],
    # the object is the pair of its two attributes
    fields=["units", "ranges"],
    result=f"Str × {RANGES_TY}",
    raises=True,  # ValueError for an invalid (start, end) pair
)

PARSE_RANGE_HEADER = Spec(
    module="http.py",
    qualname="parse_range_header",
    name="parse_range_header",
    params=[("value", "Option Str"), ("make_inclusive", "Bool")],
    locals={"ranges": RANGES_TY},
    result=f"Option (Str × {RANGES_TY})",
    raises=True,  # `units, rng = value.split("=", 1)` and `ds.Range(...)` can raise: proved impossible
    calls={
        "_plain_int": PLAIN_INT_FN,
        "ds.Range": Fn("range_init", [STR, py2lean.parse_ty(RANGES_TY)], py2lean.parse_ty(f"Str × {RANGES_TY}"), raises=("ValueError",)),
    },
)


UNQUOTE_ETAG = Spec(
    module="http.py",
    qualname="unquote_etag",
    name="unquote_etag",
    params=[("etag", "Option Str")],
    result="Option Str × Option Bool",
)


def _if_range_matcher(n):
    """`ds.IfRange()`, `ds.IfRange(<etag>)`, `ds.IfRange(date=<date>)` -> [etag, date]: the arguments
    of the translated `IfRange.__init__(etag=None, date=None)` (its parameter names and order are
    checked by the translator; the defaults `None` are filled in here)"""
    import ast

    if not (isinstance(n, ast.Call) and py2lean.dotted(n.func) == "ds.IfRange"):
        return None
    none = ast.Constant(value=None)
    if not n.args and not n.keywords:
        return [none, none]
    if len(n.args) == 1 and not n.keywords:
        return [n.args[0], none]
    if not n.args and len(n.keywords) == 1 and n.keywords[0].arg == "date":
        return [none, n.keywords[0].value]
    return None


IF_RANGE_INIT = Spec(
    module="datastructures/range.py",
    qualname="IfRange.__init__",
    name="if_range_init",
    # parameter names and order are checked against the source; both default to None
    params=[("etag", "Option Str"), ("date", "Option Int")],
    fields=["etag", "date"],
    result="Option Str × Option Int",
)

PARSE_IF_RANGE_HEADER = Spec(
    module="http.py",
    qualname="parse_if_range_header",
    name="parse_if_range_header",
    # parse_date stays opaque: text -> instant (as an integer) or None
    opaque=[("parse_date", "Pre.Str → Option Int")],
    params=[("value", "Option Str")],
    # the IfRange object = (etag, date)
    result="Option Str × Option Int",
    calls={
        "parse_date": Fn("parse_date", [STR], Opt(INT)),
        "unquote_etag": Fn("unquote_etag", [Opt(STR)], Tup(Opt(STR), Opt(BOOL))),
    },
    patterns=[(_if_range_matcher, Fn("if_range_init", [Opt(STR), Opt(INT)], Tup(Opt(STR), Opt(INT))))],
)


@generator("PyFns_Range")
def gen_range():
    return emit("Range", [IS_BYTE_RANGE_VALID, RANGE_FOR_LENGTH, RANGE_INIT, PARSE_RANGE_HEADER, UNQUOTE_ETAG, IF_RANGE_INIT, PARSE_IF_RANGE_HEADER], imports=["WzVerif.Gen.PyFns_Internal"])


# --------------------------------------------------------------------------
# C20: trusted hosts

STRIP_PORT = Spec(
    module="sansio/utils.py",
    qualname="_strip_port",
    name="strip_port",
    params=[("host", "Str")],
    result="Str",
)

#: `X.encode("idna").decode("ascii")` is one opaque function `idna` (UnicodeError = any failure)
IDNA = Fn("idna", [STR], STR, raises=("UnicodeError",))

HOST_IS_TRUSTED = Spec(
    module="sansio/utils.py",
    qualname="host_is_trusted",
    name="host_is_trusted",
    opaque=[("idna", "Pre.Str → Except String Pre.Str")],
    params=[("hostname", "Option Str"), ("trusted_list", "List Str")],
    result="Bool",
    calls={"_strip_port": Fn("strip_port", [STR], STR)},
    patterns=[(chain_matcher(("encode", ("idna",)), ("decode", ("ascii",))), IDNA)],
)


GET_HOST = Spec(
    module="sansio/utils.py",
    qualname="get_host",
    name="get_host",
    opaque=[("idna", "Pre.Str → Except String Pre.Str")],
    params=[("scheme", "Str"), ("host_header", "Option Str"), ("server", "Option (Str × Option Int)"), ("trusted_hosts", "Option (List Str)")],
    result="Str",
    raises=True,  # SecurityError; host[0] raises IndexError on "": proved impossible
    calls={"host_is_trusted": Fn("host_is_trusted", [Opt(STR), py2lean.Lst(STR)], BOOL, extra=("idna",))},
)


@generator("PyFns_Host")
def gen_host():
    return emit("Host", [STRIP_PORT, HOST_IS_TRUSTED, GET_HOST])


# --------------------------------------------------------------------------
# C14: paths

SAFE_JOIN = Spec(
    module="security.py",
    qualname="safe_join",
    name="safe_join",
    # `_os_alt_seps` (a module constant computed from os.sep / os.path.altsep at import time) is a
    # parameter, as in the model's `safeJoinWith`; Props/C14T instantiates it with the regenerated value
    opaque=[("os_alt_seps", "List Pre.Str")],
    consts={"_os_alt_seps": ("os_alt_seps", "List Str")},
    params=[("directory", "Str"), ("*pathnames", "List Str")],
    result="Option Str",
    raises=True,  # posixpath.join(*parts) raises TypeError for an empty `parts`: proved impossible
    # os.path is posixpath on the platform the models are generated for (checked: `os_path_is_posixpath`)
    calls={"os.path.isabs": Fn("Wz.Paths.isabs", [STR], BOOL)},
)


def _call_matcher(dotted_name, lits_before=(), nargs=1):
    """matcher for `a.b.c(<literal args...>, X)` -> [X]"""
    import ast

    def m(n):
        if not (isinstance(n, ast.Call) and not n.keywords and py2lean.dotted(n.func) == dotted_name):
            return None
        if len(n.args) != len(lits_before) + nargs:
            return None
        for a, v in zip(n.args, lits_before):
            if not (isinstance(a, ast.Constant) and a.value == v and type(a.value) is type(v)):
                return None
        return list(n.args[len(lits_before):])

    return m


def secure_filename_spec():
    import os as _os

    return Spec(
        module="utils.py",
        qualname="secure_filename",
        name="secure_filename",
        opaque=[("nfkd", "Pre.Str → Pre.Str")],
        params=[("filename", "Str")],
        result="Str",
        patterns=[
            # unicodedata.normalize("NFKD", X): opaque
            (_call_matcher("unicodedata.normalize", ("NFKD",)), Fn("nfkd", [STR], STR)),
            # X.encode("ascii", "ignore").decode("ascii")
            (chain_matcher(("encode", ("ascii", "ignore")), ("decode", ("ascii",))), Fn("Pre.asciiIgnore", [STR], STR)),
            # _filename_ascii_strip_re.sub("", X): the regex is one character class, evaluated on every
            # code point into Gen.Paths.stripRe / stripReHigh by tools/gen/c14.py
            (_call_matcher("_filename_ascii_strip_re.sub", ("",)), Fn("filenameAsciiStripReSubEmpty", [STR], STR)),
        ],
        consts={"os.sep": ("osSep", "Str"), "os.path.altsep": ("osAltsep", "Option Str")},
        # decided at generation time and pinned by the obligation `windows_branch_dead`
        static={"os.name == 'nt'": _os.name == "nt"},
    )


@generator("PyFns_Paths")
def gen_paths():
    import os as _os
    import posixpath as _pp

    extra = f"""/-- `os.path is posixpath` on the platform this file was generated on (the translation maps
`os.path.isabs` to the model of `posixpath.isabs`) -/
def osPathIsPosixpath : Bool := {"true" if _os.path is _pp else "false"}

"""
    opt_str = lambda v: "none" if v is None else f"some {py2lean.lean_str_lit(v)}"  # noqa: E731
    extra += f"""/-- `os.sep` -/
def osSep : Pre.Str := {py2lean.lean_str_lit(_os.sep)}

/-- `os.path.altsep` -/
def osAltsep : Option Pre.Str := {opt_str(_os.path.altsep)}

/-- `os.name == "nt"` at generation time (decides the Windows device-file branch of `secure_filename`) -/
def osNameNt : Bool := {"true" if _os.name == "nt" else "false"}

/-- `_filename_ascii_strip_re.sub("", s)`: the regex is a single character class; `Wz.Paths.stripped`
is that class evaluated on every code point (`Gen/Paths.lean`, regenerated on every run) -/
def filenameAsciiStripReSubEmpty (s : Pre.Str) : Pre.Str := s.filter fun c => !Wz.Paths.stripped c

"""
    return emit("Paths", [SAFE_JOIN, secure_filename_spec()], imports=["WzVerif.Model.Paths"], extra=extra)


# --------------------------------------------------------------------------
# C09: Content-Length

GET_CONTENT_LENGTH = Spec(
    module="sansio/utils.py",
    qualname="get_content_length",
    name="get_content_length",
    params=[("http_content_length", "Option Str"), ("http_transfer_encoding", "Option Str")],
    result="Option Int",
    calls={"_plain_int": PLAIN_INT_FN},
)


@generator("PyFns_Length")
def gen_length():
    return emit("Length", [GET_CONTENT_LENGTH], imports=["WzVerif.Gen.PyFns_Internal"])


# --------------------------------------------------------------------------
# C06: header value quoting

QUOTE_HEADER_VALUE = Spec(
    module="http.py",
    qualname="quote_header_value",
    name="quote_header_value",
    # `value: t.Any` is restricted to str (as in the model); `str(value)` is then the identity
    params=[("value", "Str"), ("allow_token", "Bool")],
    result="Str",
    # `_token_chars` (a frozenset of characters) enters through its membership test, which
    # tools/gen/c06.py evaluates on every code point into Gen.Http.tokenTbl / tokenHigh
    consts={"_token_chars": ("Wz.Http.isToken", "CharSet")},
)

UNQUOTE_HEADER_VALUE = Spec(
    module="http.py",
    qualname="unquote_header_value",
    name="unquote_header_value",
    params=[("value", "Str")],
    result="Str",
    raises=True,  # value[0] / value[-1] raise IndexError on "": proved impossible (len guard)
)


RANGE_TO_HEADER = Spec(
    module="datastructures/range.py",
    qualname="Range.to_header",
    name="range_to_header",
    params=[("self.units", "Str"), ("self.ranges", RANGES_TY)],
    locals={"ranges": "List Str"},
    result="Str",
)


@generator("PyFns_Http")
def gen_http():
    return emit("Http", [QUOTE_HEADER_VALUE, UNQUOTE_HEADER_VALUE, IS_BYTE_RANGE_VALID, RANGE_TO_HEADER], imports=["WzVerif.Model.Http"])


# --------------------------------------------------------------------------
# C01: multipart decoder

LAST_NEWLINE = Spec(
    module="sansio/multipart.py",
    qualname="MultipartDecoder.last_newline",
    name="last_newline",
    params=[("data", "Bytes")],
    result="Int",
)


@generator("PyFns_Multipart")
def gen_multipart():
    return emit("Multipart", [LAST_NEWLINE])


# --------------------------------------------------------------------------
# C04: number converters

NUMBER_TO_PYTHON = Spec(
    module="routing/converters.py",
    qualname="NumberConverter.to_python",
    name="number_to_python",
    # `self.num_convert` (int for IntegerConverter) stays a parameter: text -> number or ValueError
    opaque=[("num_convert", "Pre.Str → Except String Int")],
    params=[("self.fixed_digits", "Int"), ("self.min", "Option Int"), ("self.max", "Option Int"), ("value", "Str")],
    result="Int",
    raises=True,
    calls={"self.num_convert": Fn("num_convert", [STR], INT, raises=("ValueError",))},
)

NUMBER_TO_URL = Spec(
    module="routing/converters.py",
    qualname="NumberConverter.to_url",
    name="number_to_url",
    # for an `int` value `self.num_convert(value)` = `int(value)` is the value itself
    params=[("self.fixed_digits", "Int"), ("value", "Int")],
    result="Str",
    calls={"self.num_convert": Fn("id", [INT], INT)},
)


@generator("PyFns_Routing")
def gen_routing():
    return emit("Routing", [NUMBER_TO_PYTHON, NUMBER_TO_URL])
