"""Definitions regenerated from werkzeug's source by tools/py2lean.py: `Gen/PyFns_<topic>.lean`.

One file per property topic so that rebuilds stay local. Each generator lists the functions it
translates with their signature spec; a function outside py2lean's subset makes the generator
raise `Untranslatable`, which the check reports as a broken obligation (`<extract> ...`).
"""
import os
import sys

sys.path.insert(0, os.path.dirname(os.path.dirname(os.path.abspath(__file__))))
import py2lean  # noqa: E402
from extract_lib import REPO, generator, lean_str, write  # noqa: E402
from py2lean import BOOL, INT, STR, Fn, Opt, Spec, Tup, chain_matcher  # noqa: E402

HEAD = """import WzVerif.Util.PyPrelude
{imports}set_option linter.unusedVariables false
namespace Wz.Gen.PyFns_{topic}
open Wz

"""


def emit(topic, specs, imports=(), extra=""):
    parts = [extra] if extra else []
    srcs = []
    for sp in specs:
        try:
            parts.append(py2lean.translate(sp, REPO))
        except py2lean.Untranslatable as e:
            # fail loudly, but locally: the definition is left out, so exactly the obligations of
            # Props/C<NN>T that mention it break (the other theorems of the property, the model
            # driver and the streams keep running); the reason is recorded in the generated file
            msg = str(e).replace("-/", "- /")
            print(f"extract: PyFns_{topic}: `{sp.name}` is UNTRANSLATABLE: {msg}")
            parts.append(f"/- UNTRANSLATABLE by tools/py2lean.py: {msg}\n   The definition `{sp.name}` is therefore missing: every obligation that mentions it is broken. -/\n")
        s = "src/werkzeug/" + sp.module
        if s not in srcs:
            srcs.append(s)
    body = HEAD.format(topic=topic, imports="".join(f"import {i}\n" for i in imports)) + "\n".join(parts) + f"\nend Wz.Gen.PyFns_{topic}\n"
    return write(f"PyFns_{topic}", body, ", ".join(srcs) + " (tools/py2lean.py)")


# --------------------------------------------------------------------------
# werkzeug._internal._plain_int (used by C09, C11)

PLAIN_INT = Spec(
    module="_internal.py",
    qualname="_plain_int",
    name="plain_int",
    params=[("value", "Str")],
    result="Int",
    raises=True,
)
PLAIN_INT_FN = Fn("Gen.PyFns_Internal.plain_int", [STR], INT, raises=("ValueError",))


def regex_const(module, name, lean):
    """pin the source of a module-level compiled regex the translation maps to a prelude matcher"""
    import importlib

    rx = getattr(importlib.import_module(module), name)
    return f"""/-- `{module}.{name}`: (pattern source, flags) - the translation maps its methods to a
hand-written matcher of the prelude, which is only right for this source -/
def {lean} : String × Nat := ({lean_str(rx.pattern)}, {int(rx.flags)})

"""


@generator("PyFns_Internal")
def gen_internal():
    return emit("Internal", [PLAIN_INT], extra=regex_const("werkzeug._internal", "_plain_int_re", "plainIntRe"))


# --------------------------------------------------------------------------
# C11: ranges

IS_BYTE_RANGE_VALID = Spec(
    module="http.py",
    qualname="is_byte_range_valid",
    name="is_byte_range_valid",
    params=[("start", "Option Int"), ("stop", "Option Int"), ("length", "Option Int")],
    result="Bool",
)


RANGE_FOR_LENGTH = Spec(
    module="datastructures/range.py",
    qualname="Range.range_for_length",
    name="range_for_length",
    params=[("self.units", "Str"), ("self.ranges", "List (Int × Option Int)"), ("length", "Option Int")],
    result="Option (Int × Int)",
    raises=True,  # self.ranges[0] raises IndexError for an empty list: proved impossible
    calls={"http.is_byte_range_valid": Fn("is_byte_range_valid", [Opt(INT), Opt(INT), Opt(INT)], BOOL)},
)


RANGES_TY = "List (Int × Option Int)"

RANGE_INIT = Spec(
    module="datastructures/range.py",
    qualname="Range.__init__",
    name="range_init",
    params=[("units", "Str"), ("ranges", RANGES_TY)],
    # the object is the pair of its two attributes
    fields=["units", "ranges"],
    result=f"Str × {RANGES_TY}",
    raises=True,  # ValueError for an invalid (start, end) pair
)

PARSE_RANGE_HEADER = Spec(
    module="http.py",
    qualname="parse_range_header",
    name="parse_range_header",
    params=[("value", "Option Str"), ("make_inclusive", "Bool")],
    locals={"ranges": RANGES_TY},
    result=f"Option (Str × {RANGES_TY})",
    raises=True,  # `units, rng = value.split("=", 1)` and `ds.Range(...)` can raise: proved impossible
    calls={
        "_plain_int": PLAIN_INT_FN,
        "ds.Range": Fn("range_init", [STR, py2lean.parse_ty(RANGES_TY)], py2lean.parse_ty(f"Str × {RANGES_TY}"), raises=("ValueError",)),
    },
)


UNQUOTE_ETAG = Spec(
    module="http.py",
    qualname="unquote_etag",
    name="unquote_etag",
    params=[("etag", "Option Str")],
    result="Option Str × Option Bool",
)


def _if_range_matcher(n):
    """`ds.IfRange()`, `ds.IfRange(<etag>)`, `ds.IfRange(date=<date>)` -> [etag, date]: the arguments
    of the translated `IfRange.__init__(etag=None, date=None)` (its parameter names and order are
    checked by the translator; the defaults `None` are filled in here)"""
    import ast

    if not (isinstance(n, ast.Call) and py2lean.dotted(n.func) == "ds.IfRange"):
        return None
    none = ast.Constant(value=None)
    if not n.args and not n.keywords:
        return [none, none]
    if len(n.args) == 1 and not n.keywords:
        return [n.args[0], none]
    if not n.args and len(n.keywords) == 1 and n.keywords[0].arg == "date":
        return [none, n.keywords[0].value]
    return None


IF_RANGE_INIT = Spec(
    module="datastructures/range.py",
    qualname="IfRange.__init__",
    name="if_range_init",
    # parameter names and order are checked against the source; both default to None
    params=[("etag", "Option Str"), ("date", "Option Int")],
    fields=["etag", "date"],
    result="Option Str × Option Int",
)

PARSE_IF_RANGE_HEADER = Spec(
    module="http.py",
    qualname="parse_if_range_header",
    name="parse_if_range_header",
    # parse_date stays opaque: text -> instant (as an integer) or None
    opaque=[("parse_date", "Pre.Str → Option Int")],
    params=[("value", "Option Str")],
    # the IfRange object = (etag, date)
    result="Option Str × Option Int",
    calls={
        "parse_date": Fn("parse_date", [STR], Opt(INT)),
        "unquote_etag": Fn("unquote_etag", [Opt(STR)], Tup(Opt(STR), Opt(BOOL))),
    },
    patterns=[(_if_range_matcher, Fn("if_range_init", [Opt(STR), Opt(INT)], Tup(Opt(STR), Opt(INT))))],
)


@generator("PyFns_Range")
def gen_range():
    return emit("Range", [IS_BYTE_RANGE_VALID, RANGE_FOR_LENGTH, RANGE_INIT, PARSE_RANGE_HEADER, UNQUOTE_ETAG, IF_RANGE_INIT, PARSE_IF_RANGE_HEADER], imports=["WzVerif.Gen.PyFns_Internal"])


# --------------------------------------------------------------------------
# C20: trusted hosts

STRIP_PORT = Spec(
    module="sansio/utils.py",
    qualname="_strip_port",
    name="strip_port",
    params=[("host", "Str")],
    result="Str",
)

#: `X.encode("idna").decode("ascii")` is one opaque function `idna` (UnicodeError = any failure)
IDNA = Fn("idna", [STR], STR, raises=("UnicodeError",))

HOST_IS_TRUSTED = Spec(
    module="sansio/utils.py",
    qualname="host_is_trusted",
    name="host_is_trusted",
    opaque=[("idna", "Pre.Str → Except String Pre.Str")],
    params=[("hostname", "Option Str"), ("trusted_list", "List Str")],
    result="Bool",
    calls={"_strip_port": Fn("strip_port", [STR], STR)},
    patterns=[(chain_matcher(("encode", ("idna",)), ("decode", ("ascii",))), IDNA)],
)


GET_HOST = Spec(
    module="sansio/utils.py",
    qualname="get_host",
    name="get_host",
    opaque=[("idna", "Pre.Str → Except String Pre.Str")],
    params=[("scheme", "Str"), ("host_header", "Option Str"), ("server", "Option (Str × Option Int)"), ("trusted_hosts", "Option (List Str)")],
    result="Str",
    raises=True,  # SecurityError; host[0] raises IndexError on "": proved impossible
    calls={"host_is_trusted": Fn("host_is_trusted", [Opt(STR), py2lean.Lst(STR)], BOOL, extra=("idna",))},
)


@generator("PyFns_Host")
def gen_host():
    return emit("Host", [STRIP_PORT, HOST_IS_TRUSTED, GET_HOST])


# --------------------------------------------------------------------------
# C14: paths

SAFE_JOIN = Spec(
    module="security.py",
    qualname="safe_join",
    name="safe_join",
    # `_os_alt_seps` (a module constant computed from os.sep / os.path.altsep at import time) is a
    # parameter, as in the model's `safeJoinWith`; Props/C14T instantiates it with the regenerated value
    opaque=[("os_alt_seps", "List Pre.Str")],
    consts={"_os_alt_seps": ("os_alt_seps", "List Str")},
    params=[("directory", "Str"), ("*pathnames", "List Str")],
    result="Option Str",
    raises=True,  # posixpath.join(*parts) raises TypeError for an empty `parts`: proved impossible
    # os.path is posixpath on the platform the models are generated for (checked: `os_path_is_posixpath`)
    calls={"os.path.isabs": Fn("Wz.Paths.isabs", [STR], BOOL)},
)


def _call_matcher(dotted_name, lits_before=(), nargs=1):
    """matcher for `a.b.c(<literal args...>, X)` -> [X]"""
    import ast

    def m(n):
        if not (isinstance(n, ast.Call) and not n.keywords and py2lean.dotted(n.func) == dotted_name):
            return None
        if len(n.args) != len(lits_before) + nargs:
            return None
        for a, v in zip(n.args, lits_before):
            if not (isinstance(a, ast.Constant) and a.value == v and type(a.value) is type(v)):
                return None
        return list(n.args[len(lits_before):])

    return m


def secure_filename_spec():
    import os as _os

    return Spec(
        module="utils.py",
        qualname="secure_filename",
        name="secure_filename",
        opaque=[("nfkd", "Pre.Str → Pre.Str")],
        params=[("filename", "Str")],
        result="Str",
        patterns=[
            # unicodedata.normalize("NFKD", X): opaque
            (_call_matcher("unicodedata.normalize", ("NFKD",)), Fn("nfkd", [STR], STR)),
            # X.encode("ascii", "ignore").decode("ascii")
            (chain_matcher(("encode", ("ascii", "ignore")), ("decode", ("ascii",))), Fn("Pre.asciiIgnore", [STR], STR)),
            # _filename_ascii_strip_re.sub("", X): the regex is one character class, evaluated on every
            # code point into Gen.Paths.stripRe / stripReHigh by tools/gen/c14.py
            (_call_matcher("_filename_ascii_strip_re.sub", ("",)), Fn("filenameAsciiStripReSubEmpty", [STR], STR)),
        ],
        consts={"os.sep": ("osSep", "Str"), "os.path.altsep": ("osAltsep", "Option Str")},
        # decided at generation time and pinned by the obligation `windows_branch_dead`
        static={"os.name == 'nt'": _os.name == "nt"},
    )


@generator("PyFns_Paths")
def gen_paths():
    import os as _os
    import posixpath as _pp

    extra = f"""/-- `os.path is posixpath` on the platform this file was generated on (the translation maps
`os.path.isabs` to the model of `posixpath.isabs`) -/
def osPathIsPosixpath : Bool := {"true" if _os.path is _pp else "false"}

"""
    opt_str = lambda v: "none" if v is None else f"some {py2lean.lean_str_lit(v)}"  # noqa: E731
    extra += f"""/-- `os.sep` -/
def osSep : Pre.Str := {py2lean.lean_str_lit(_os.sep)}

/-- `os.path.altsep` -/
def osAltsep : Option Pre.Str := {opt_str(_os.path.altsep)}

/-- `os.name == "nt"` at generation time (decides the Windows device-file branch of `secure_filename`) -/
def osNameNt : Bool := {"true" if _os.name == "nt" else "false"}

/-- `_filename_ascii_strip_re.sub("", s)`: the regex is a single character class; `Wz.Paths.stripped`
is that class evaluated on every code point (`Gen/Paths.lean`, regenerated on every run) -/
def filenameAsciiStripReSubEmpty (s : Pre.Str) : Pre.Str := s.filter fun c => !Wz.Paths.stripped c

"""
    return emit("Paths", [SAFE_JOIN, secure_filename_spec()], imports=["WzVerif.Model.Paths"], extra=extra)


# --------------------------------------------------------------------------
# C09: Content-Length

GET_CONTENT_LENGTH = Spec(
    module="sansio/utils.py",
    qualname="get_content_length",
    name="get_content_length",
    params=[("http_content_length", "Option Str"), ("http_transfer_encoding", "Option Str")],
    result="Option Int",
    calls={"_plain_int": PLAIN_INT_FN},
)


@generator("PyFns_Length")
def gen_length():
    return emit("Length", [GET_CONTENT_LENGTH], imports=["WzVerif.Gen.PyFns_Internal"])


# --------------------------------------------------------------------------
# C06: header value quoting

QUOTE_HEADER_VALUE = Spec(
    module="http.py",
    qualname="quote_header_value",
    name="quote_header_value",
    # `value: t.Any` is restricted to str (as in the model); `str(value)` is then the identity
    params=[("value", "Str"), ("allow_token", "Bool")],
    result="Str",
    # `_token_chars` (a frozenset of characters) enters through its membership test, which
    # tools/gen/c06.py evaluates on every code point into Gen.Http.tokenTbl / tokenHigh
    consts={"_token_chars": ("Wz.Http.isToken", "CharSet")},
)

UNQUOTE_HEADER_VALUE = Spec(
    module="http.py",
    qualname="unquote_header_value",
    name="unquote_header_value",
    params=[("value", "Str")],
    result="Str",
    raises=True,  # value[0] / value[-1] raise IndexError on "": proved impossible (len guard)
)


RANGE_TO_HEADER = Spec(
    module="datastructures/range.py",
    qualname="Range.to_header",
    name="range_to_header",
    params=[("self.units", "Str"), ("self.ranges", RANGES_TY)],
    locals={"ranges": "List Str"},
    result="Str",
)


@generator("PyFns_Http")
def gen_http():
    return emit("Http", [QUOTE_HEADER_VALUE, UNQUOTE_HEADER_VALUE, IS_BYTE_RANGE_VALID, RANGE_TO_HEADER], imports=["WzVerif.Model.Http"])


# --------------------------------------------------------------------------
# C01: multipart decoder

LAST_NEWLINE = Spec(
    module="sansio/multipart.py",
    qualname="MultipartDecoder.last_newline",
    name="last_newline",
    params=[("data", "Bytes")],
    result="Int",
)


@generator("PyFns_Multipart")
def gen_multipart():
    return emit("Multipart", [LAST_NEWLINE])


# --------------------------------------------------------------------------
# C04: number converters

NUMBER_TO_PYTHON = Spec(
    module="routing/converters.py",
    qualname="NumberConverter.to_python",
    name="number_to_python",
    # `self.num_convert` (int for IntegerConverter) stays a parameter: text -> number or ValueError
    opaque=[("num_convert", "Pre.Str → Except String Int")],
    params=[("self.fixed_digits", "Int"), ("self.min", "Option Int"), ("self.max", "Option Int"), ("value", "Str")],
    result="Int",
    raises=True,
    calls={"self.num_convert": Fn("num_convert", [STR], INT, raises=("ValueError",))},
)

NUMBER_TO_URL = Spec(
    module="routing/converters.py",
    qualname="NumberConverter.to_url",
    name="number_to_url",
    # for an `int` value `self.num_convert(value)` = `int(value)` is the value itself
    params=[("self.fixed_digits", "Int"), ("value", "Int")],
    result="Str",
    calls={"self.num_convert": Fn("id", [INT], INT)},
)


@generator("PyFns_Routing")
def gen_routing():
    return emit("Routing", [NUMBER_TO_PYTHON, NUMBER_TO_URL])


# --------------------------------------------------------------------------
# C17: content negotiation (datastructures/accept.py)

from py2lean import Abs, Lst  # noqa: E402

_K, _S = Abs("κ"), Abs("σ")
_ACC = dict(
    module="datastructures/accept.py",
    # the class-specific parts (`_specificity`, `_value_matches`, the orders on qualities and on
    # specificity tuples, the quality 0) are the fields of the model's `Neg` structure
    type_params=["σ", "κ"],
    orders={"κ": "N.qle", "σ": "N.sle"},
)
_ACC_CALLS = {
    "self._value_matches": Fn("N.matches", [STR, STR], BOOL),
    "self._specificity": Fn("N.spec", [STR], _S),
}
_SELF = ("self", "List (Str × κ)")
_N = ("N", "Wz.Accept.Neg σ κ")

ACC_BEST_SINGLE = Spec(qualname="Accept._best_single_match", name="best_single_match", opaque=[_N],
                       params=[_SELF, ("match", "Str")], result="Option (Str × κ)", calls=_ACC_CALLS, **_ACC)
ACC_QUALITY = Spec(qualname="Accept.quality", name="quality", opaque=[_N], params=[_SELF, ("key", "Str")],
                   result="κ", calls=_ACC_CALLS, abs_lits={("κ", 0): "N.zero"}, **_ACC)
ACC_CONTAINS = Spec(qualname="Accept.__contains__", name="contains", opaque=[_N], params=[_SELF, ("value", "Str")],
                    result="Bool", calls=_ACC_CALLS, **_ACC)
ACC_INDEX = Spec(qualname="Accept.index", name="index", opaque=[_N], params=[_SELF, ("key", "Str")],
                 result="Int", raises=True, calls=_ACC_CALLS, **_ACC)
ACC_FIND = Spec(qualname="Accept.find", name="find", opaque=[_N], params=[_SELF, ("key", "Str")], result="Int",
                calls={"self.index": Fn("index", [STR], INT, raises=("ValueError",), extra=("N", "self"))}, **_ACC)
ACC_BEST_MATCH = Spec(
    qualname="Accept.best_match",
    name="best_match",
    # the sentinels `best_quality = -1` and `best_specificity = (-1,)` are parameters (any quality
    # below 0 / any specificity: Props/C17T states what is assumed of them)
    opaque=[_N, ("qm1", "κ"), ("sm1", "σ")],
    params=[_SELF, ("matches", "List Str"), ("default", "Option Str")],
    result="Option Str",
    locals={"best_quality": "κ", "best_specificity": "σ"},
    abs_lits={("κ", 0): "N.zero", ("κ", -1): "qm1"},
    literals={"(-1,)": ("sm1", "σ")},
    calls=dict(_ACC_CALLS, **{"self._best_single_match": Fn("best_single_match", [STR], Opt(Tup(STR, _K)), extra=("N", "self"))}),
    **_ACC,
)




def _super_best_match(n):
    """`super().best_match(X)` -> [X, None] (default=None)"""
    import ast

    f = n.func if isinstance(n, ast.Call) else None
    if not (isinstance(f, ast.Attribute) and f.attr == "best_match" and isinstance(f.value, ast.Call) and isinstance(f.value.func, ast.Name) and f.value.func.id == "super" and not f.value.args):
        return None
    if len(n.args) != 1 or n.keywords:
        return None
    return [n.args[0], ast.Constant(value=None)]


def _obj_best_match(n):
    """`<name>.best_match(X)` on a local Accept object -> [<name>, X, None]"""
    import ast

    f = n.func if isinstance(n, ast.Call) else None
    if not (isinstance(f, ast.Attribute) and f.attr == "best_match" and isinstance(f.value, ast.Name) and f.value.id != "self"):
        return None
    if len(n.args) != 1 or n.keywords:
        return None
    return [f.value, n.args[0], ast.Constant(value=None)]


def _primary_tag(n):
    """`_locale_delim_re.split(X, 1)[0]` -> [X]: the text before the first `_` or `-`"""
    import ast

    if not (isinstance(n, ast.Subscript) and isinstance(n.slice, ast.Constant) and n.slice.value == 0 and type(n.slice.value) is int):
        return None
    c = n.value
    if not (isinstance(c, ast.Call) and py2lean.dotted(c.func) == "_locale_delim_re.split" and len(c.args) == 2 and not c.keywords):
        return None
    if not (isinstance(c.args[1], ast.Constant) and c.args[1].value == 1 and type(c.args[1].value) is int):
        return None
    return [c.args[0]]


_LSK = Lst(Tup(STR, _K))
LANG_BEST_MATCH = Spec(
    qualname="LanguageAccept.best_match",
    name="lang_best_match",
    # N: the LanguageAccept class, A: the plain Accept class (for the `fallback` object);
    # `Accept(values)` is the model's stable descending sort `mk A`
    opaque=[_N, ("A", "Wz.Accept.Neg σ κ"), ("qm1", "κ"), ("sm1", "σ")],
    params=[_SELF, ("matches", "List Str"), ("default", "Option Str")],
    result="Option Str",
    raises=True,  # next(...) raises StopIteration when nothing is found: proved impossible
    abs_lits={("κ", 0): "N.zero"},
    calls={
        "self._best_single_match": Fn("best_single_match", [STR], Opt(Tup(STR, _K)), extra=("N", "self")),
        "Accept": Fn("Wz.Accept.mk A", [_LSK], _LSK),
    },
    patterns=[
        (_super_best_match, Fn("best_match N qm1 sm1 self", [Lst(STR), Opt(STR)], Opt(STR))),
        (_obj_best_match, Fn("best_match A qm1 sm1", [_LSK, Lst(STR), Opt(STR)], Opt(STR))),
        # `_locale_delim_re = re.compile(r"[_-]")`: pinned by `localeDelimRe`
        (_primary_tag, Fn("Wz.Accept.primaryTag", [STR], STR)),
    ],
    **_ACC,
)


@generator("PyFns_Accept")
def gen_accept():
    extra = regex_const("werkzeug.datastructures.accept", "_locale_delim_re", "localeDelimRe")
    return emit("Accept", [ACC_BEST_SINGLE, ACC_QUALITY, ACC_CONTAINS, ACC_INDEX, ACC_FIND, ACC_BEST_MATCH, LANG_BEST_MATCH], imports=["WzVerif.Model.Accept"], extra=extra)


# --------------------------------------------------------------------------
# C08: Headers / HeaderSet (stateful methods)

_HL = "List (Str × Str)"
STR_HEADER_VALUE = Spec(
    module="datastructures/headers.py",
    qualname="_str_header_value",
    name="str_header_value",
    # `value: t.Any` is restricted to str (the model receives the text): `str(value)` is not reached
    params=[("value", "Str")],
    result="Str",
    raises=True,
    # `_newline_re = re.compile(r"[\r\n]")`: pinned by `newlineRe`
    calls={"_newline_re.search": Fn("Pre.newlineReSearch", [STR], Opt(py2lean.OBJ))},
)
_SHV = Fn("str_header_value", [STR], STR, raises=("ValueError",))
HEADERS_ADD = Spec(
    module="datastructures/headers.py",
    qualname="Headers.add",
    name="headers_add",
    params=[("self._list", _HL), ("key", "Str"), ("value", "Str")],
    state=["_list"],
    result="Unit",
    raises=True,
    static={"kwargs": False},  # called without keyword arguments
    calls={"_str_header_value": _SHV},
)
HEADERS_DEL_KEY = Spec(
    module="datastructures/headers.py",
    qualname="Headers._del_key",
    name="headers_del_key",
    params=[("self._list", _HL), ("key", "Str")],
    state=["_list"],
    locals={"new": _HL},
    result="Unit",
)
HEADERS_REMOVE = Spec(
    module="datastructures/headers.py",
    qualname="Headers.remove",
    name="headers_remove",
    params=[("self._list", _HL), ("key", "Str")],
    state=["_list"],
    result="Unit",
    calls={"self._del_key": Fn("headers_del_key", [STR], py2lean.NONE, state=("self._list",))},
)


HEADERS_SET = Spec(
    module="datastructures/headers.py",
    qualname="Headers.set",
    name="headers_set",
    params=[("self._list", _HL), ("key", "Str"), ("value", "Str")],
    state=["_list"],
    result="Unit",
    raises=True,
    static={"kwargs": False},
    calls={"_str_header_value": _SHV},
)


@generator("PyFns_Headers")
def gen_headers():
    extra = regex_const("werkzeug.datastructures.headers", "_newline_re", "newlineRe")
    return emit("Headers", [STR_HEADER_VALUE, HEADERS_ADD, HEADERS_DEL_KEY, HEADERS_REMOVE, HEADERS_SET], imports=["WzVerif.Model.Headers"], extra=extra)


# --- HeaderSet (structures.py): state `_headers`, `_set` and the flag "on_update was called"

_HS_PARAMS = [("self._headers", "List Str"), ("self._set", "Set Str"), ("self.notified", "Bool")]
_HS_KEYS = ("self._headers", "self._set", "self.notified")
_HS = dict(
    module="datastructures/structures.py",
    state=["_headers", "_set", "notified"],
    # an `on_update` callback is installed (as in the model); calling it is modelled as a flag
    static={"self.on_update is not None": True},
    effects={"self.on_update(self)": [("self.notified", "True")]},
)
HS_UPDATE = Spec(qualname="HeaderSet.update", name="hs_update", params=_HS_PARAMS + [("iterable", "List Str")], result="Unit", **_HS)
HS_ADD = Spec(qualname="HeaderSet.add", name="hs_add", params=_HS_PARAMS + [("header", "Str")], result="Unit",
              calls={"self.update": Fn("hs_update", [Lst(STR)], py2lean.NONE, state=_HS_KEYS)}, **_HS)
HS_REMOVE = Spec(qualname="HeaderSet.remove", name="hs_remove", params=_HS_PARAMS + [("header", "Str")], result="Unit", raises=True, **_HS)
HS_DISCARD = Spec(qualname="HeaderSet.discard", name="hs_discard", params=_HS_PARAMS + [("header", "Str")], result="Unit",
                  calls={"self.remove": Fn("hs_remove", [STR], py2lean.NONE, raises=("KeyError",), state=_HS_KEYS)}, **_HS)
HS_SETITEM = Spec(qualname="HeaderSet.__setitem__", name="hs_setitem", params=_HS_PARAMS + [("idx", "Int"), ("value", "Str")], result="Unit", raises=True, **_HS)


@generator("PyFns_HeaderSet")
def gen_headerset():
    return emit("HeaderSet", [HS_UPDATE, HS_ADD, HS_REMOVE, HS_DISCARD, HS_SETITEM])


# --------------------------------------------------------------------------
# C19: DechunkedInput (serving.py): state `_done`, `_len`; the collaborator `_rfile` is the list
# of bytes still to come (`wire`), as in Model/Chunked.lean; the caller's buffer is handed back

def _decode_latin1(n):
    m = chain_matcher(("decode", ("latin1",)))
    return m(n)


def _int16(n):
    """`int(X, 16)` -> [X]"""
    import ast

    if isinstance(n, ast.Call) and isinstance(n.func, ast.Name) and n.func.id == "int" and len(n.args) == 2 and not n.keywords:
        b = n.args[1]
        if isinstance(b, ast.Constant) and b.value == 16 and type(b.value) is int:
            return [n.args[0]]
    return None


_RFILE = {
    "self._rfile.readline": Fn("Wz.Chunked.readline", [], py2lean.BYTES, effect_key="self.wire"),
    "self._rfile.read": Fn("rfileRead", [INT], py2lean.BYTES, effect_key="self.wire"),
}
_C19_PATTERNS = [
    (_decode_latin1, Fn("Wz.Py.latin1Dec", [py2lean.BYTES], STR)),
    # int(text, 16): the hand model's `pyInt16` (validated by stream chunklen), ValueError for none
    (_int16, Fn("int16", [STR], INT, raises=("ValueError",))),
]
READ_CHUNK_LEN = Spec(
    module="serving.py",
    qualname="DechunkedInput.read_chunk_len",
    name="read_chunk_len",
    params=[("self.wire", "Bytes")],
    state=["wire"],
    result="Int",
    raises=True,
    calls=_RFILE,
    patterns=_C19_PATTERNS,
)
DECHUNK_READINTO = Spec(
    module="serving.py",
    qualname="DechunkedInput.readinto",
    name="readinto",
    params=[("self._done", "Bool"), ("self._len", "Int"), ("self.wire", "Bytes"), ("buf", "Bytes")],
    state=["_done", "_len", "wire", "buf"],
    result="Int",
    raises=True,
    calls=dict(_RFILE, **{"self.read_chunk_len": Fn("read_chunk_len", [], INT, raises=("OSError",), state=("self.wire",))}),
    patterns=_C19_PATTERNS,
)


@generator("PyFns_Chunked")
def gen_chunked():
    extra = """/-- `rfile.read(n)` on the bytes still to come: `n` bytes unless the stream ends first (the
convention of Model/Chunked.lean); `(data, rest)` -/
def rfileRead (wire : Bytes) (n : Int) : Bytes × Bytes := (wire.take n.toNat, wire.drop n.toNat)

/-- `int(text, 16)`: the hand model's `pyInt16`, `ValueError` where it answers `none` -/
def int16 (s : Pre.Str) : Except String Int :=
  match Wz.Chunked.pyInt16 s with
  | some i => .ok i
  | none => .error "ValueError"

"""
    return emit("Chunked", [READ_CHUNK_LEN, DECHUNK_READINTO], imports=["WzVerif.Model.Chunked"], extra=extra)
