"""Definitions regenerated from werkzeug's source by tools/py2lean.py: `Gen/PyFns_<topic>.lean`.

One file per property topic so that rebuilds stay local. Each generator lists the functions it
translates with their signature spec; a function outside py2lean's subset makes the generator
raise `Untranslatable`, which the check reports as a broken obligation (`<extract> ...`).
"""
import os
import sys

sys.path.insert(0, os.path.dirname(os.path.dirname(os.path.abspath(__file__))))
import py2lean  # noqa: E402
from extract_lib import REPO, generator, write  # noqa: E402
from py2lean import BOOL, INT, STR, Fn, Opt, Spec, Tup, chain_matcher  # noqa: E402

HEAD = """import WzVerif.Util.PyPrelude
{imports}set_option linter.unusedVariables false
namespace Wz.Gen.PyFns_{topic}
open Wz

"""


def emit(topic, specs, imports=(), extra=""):
    parts = [extra] if extra else []
    srcs = []
    for sp in specs:
        parts.append(py2lean.translate(sp, REPO))
        s = "src/werkzeug/" + sp.module
        if s not in srcs:
            srcs.append(s)
    body = HEAD.format(topic=topic, imports="".join(f"import {i}\n" for i in imports)) + "\n".join(parts) + f"\nend Wz.Gen.PyFns_{topic}\n"
    return write(f"PyFns_{topic}", body, ", ".join(srcs) + " (tools/py2lean.py)")


# --------------------------------------------------------------------------
# C11: ranges

IS_BYTE_RANGE_VALID = Spec(
    module="http.py",
    qualname="is_byte_range_valid",
    name="is_byte_range_valid",
    params=[("start", "Option Int"), ("stop", "Option Int"), ("length", "Option Int")],
    result="Bool",
)


RANGE_FOR_LENGTH = Spec(
    module="datastructures/range.py",
    qualname="Range.range_for_length",
    name="range_for_length",
    params=[("self.units", "Str"), ("self.ranges", "List (Int × Option Int)"), ("length", "Option Int")],
    result="Option (Int × Int)",
    raises=True,  # self.ranges[0] raises IndexError for an empty list: proved impossible
    calls={"http.is_byte_range_valid": Fn("is_byte_range_valid", [Opt(INT), Opt(INT), Opt(INT)], BOOL)},
)


@generator("PyFns_Range")
def gen_range():
    return emit("Range", [IS_BYTE_RANGE_VALID, RANGE_FOR_LENGTH])


# --------------------------------------------------------------------------
# C20: trusted hosts

STRIP_PORT = Spec(
    module="sansio/utils.py",
    qualname="_strip_port",
    name="strip_port",
    params=[("host", "Str")],
    result="Str",
)

#: `X.encode("idna").decode("ascii")` is one opaque function `idna` (UnicodeError = any failure)
IDNA = Fn("idna", [STR], STR, raises=("UnicodeError",))

HOST_IS_TRUSTED = Spec(
    module="sansio/utils.py",
    qualname="host_is_trusted",
    name="host_is_trusted",
    opaque=[("idna", "Pre.Str → Except String Pre.Str")],
    params=[("hostname", "Option Str"), ("trusted_list", "List Str")],
    result="Bool",
    calls={"_strip_port": Fn("strip_port", [STR], STR)},
    patterns=[(chain_matcher(("encode", ("idna",)), ("decode", ("ascii",))), IDNA)],
)


@generator("PyFns_Host")
def gen_host():
    return emit("Host", [STRIP_PORT, HOST_IS_TRUSTED])


# --------------------------------------------------------------------------
# C14: paths

SAFE_JOIN = Spec(
    module="security.py",
    qualname="safe_join",
    name="safe_join",
    # `_os_alt_seps` (a module constant computed from os.sep / os.path.altsep at import time) is a
    # parameter, as in the model's `safeJoinWith`; Props/C14T instantiates it with the regenerated value
    opaque=[("os_alt_seps", "List Pre.Str")],
    consts={"_os_alt_seps": ("os_alt_seps", "List Str")},
    params=[("directory", "Str"), ("*pathnames", "List Str")],
    result="Option Str",
    raises=True,  # posixpath.join(*parts) raises TypeError for an empty `parts`: proved impossible
    # os.path is posixpath on the platform the models are generated for (checked: `os_path_is_posixpath`)
    calls={"os.path.isabs": Fn("Wz.Paths.isabs", [STR], BOOL)},
)


@generator("PyFns_Paths")
def gen_paths():
    import os as _os
    import posixpath as _pp

    extra = f"""/-- `os.path is posixpath` on the platform this file was generated on (the translation maps
`os.path.isabs` to the model of `posixpath.isabs`) -/
def osPathIsPosixpath : Bool := {"true" if _os.path is _pp else "false"}

"""
    return emit("Paths", [SAFE_JOIN], imports=["WzVerif.Model.Paths"], extra=extra)
