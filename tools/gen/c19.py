"""C19: the development server's response framing decision, by exhaustive evaluation of the real
WSGIRequestHandler (in memory: BytesIO rfile/wfile, no socket, the post-response drain's selector
stubbed). Also used by harness/c19.py (imported by path)."""
import io
import types
from unittest import mock

from extract_lib import generator, lean_bool, lean_list, write

METHODS = ["GET", "HEAD", "POST"]
PROTOCOLS = ["HTTP/1.0", "HTTP/1.1"]  # handler.protocol_version (set by the server)
REQ_VERSIONS = ["HTTP/1.0", "HTTP/1.1"]  # version on the request line
STATUS_LO, STATUS_HI = 100, 600


class FakeSelector:
    def register(self, *a, **k):
        pass

    def select(self, timeout=None):
        return []

    def close(self):
        pass


class FakeConn:
    """stands for the socket; no getpeercert (plain HTTP)"""


def make_server(app):
    return types.SimpleNamespace(
        app=app,
        ssl_context=None,
        multithread=False,
        multiprocess=False,
        server_address=("127.0.0.1", 5000),
        passthrough_errors=False,
        _server_version="Werkzeug/verif",
        log=lambda *a, **k: None,
    )


def run_in_memory(raw_request: bytes, app, protocol_version="HTTP/1.1", want_handler=False):
    """feed one request to a real WSGIRequestHandler; returns everything it wrote
    (and the handler object when asked: `handler.headers` is http.server's parse result)"""
    from werkzeug import serving

    H = type("H", (serving.WSGIRequestHandler,), {"protocol_version": protocol_version})
    h = H.__new__(H)
    h.request = h.connection = FakeConn()
    h.client_address = ("127.0.0.1", 40000)
    h.server = make_server(app)
    h.rfile = io.BytesIO(raw_request)
    h.wfile = io.BytesIO()
    with mock.patch.object(serving.selectors, "DefaultSelector", FakeSelector), mock.patch.object(serving, "_log", lambda *a, **k: None):
        h.handle()
    if want_handler:
        return h.wfile.getvalue(), h
    return h.wfile.getvalue()


def run_socketpair(raw_request: bytes, app, protocol_version="HTTP/1.1", split_at=None, pause=0.02):
    """drive a real WSGIRequestHandler in-process over a socket pair (real sockets, real selectors);
    returns every byte the client end received. `split_at`: the request is written in two pieces
    (cut at that offset) from a second thread, with a pause between them, while the handler runs"""
    import logging
    import socket

    from werkzeug import serving

    logging.getLogger("werkzeug").setLevel(logging.CRITICAL)  # the handler logs every request
    H = type("H", (serving.WSGIRequestHandler,), {"protocol_version": protocol_version})
    c, s = socket.socketpair()
    try:
        c.settimeout(10)
        s.settimeout(10)
        sender = None
        if split_at is None:
            c.sendall(raw_request)
            c.shutdown(socket.SHUT_WR)
        else:
            import threading
            import time

            def send():
                try:
                    c.sendall(raw_request[:split_at])
                    time.sleep(pause)
                    c.sendall(raw_request[split_at:])
                    c.shutdown(socket.SHUT_WR)
                except OSError:
                    pass

            sender = threading.Thread(target=send, daemon=True)
            sender.start()
        H(s, ("127.0.0.1", 40000), make_server(app))  # setup(), handle(), finish()
        if sender is not None:
            sender.join(10)
        s.close()
        data = b""
        while True:
            try:
                chunk = c.recv(65536)
            except OSError:  # the server closed with request bytes unread: what was received is the answer
                break
            if not chunk:
                break
            data += chunk
        return data
    finally:
        c.close()
        s.close()


def split_response(raw: bytes):
    head, sep, body = raw.partition(b"\r\n\r\n")
    lines = head.split(b"\r\n")
    status_line = lines[0]
    headers = []
    for ln in lines[1:]:
        k, _, v = ln.partition(b":")
        headers.append((k.decode("latin-1"), v.strip().decode("latin-1")))
    return status_line, headers, body, bool(sep)


def framing_of(code, method, has_cl, protocol, req_version, body=b"hello"):
    """(Transfer-Encoding: chunked header sent, body on the wire is chunk-framed)"""

    def app(environ, start_response):
        headers = [("Content-Type", "text/plain")]
        if has_cl:
            headers.append(("Content-Length", str(len(body))))
        start_response(f"{code} Status", headers)
        return [body]

    raw = run_in_memory(f"{method} /x {req_version}\r\nHost: localhost\r\n\r\n".encode(), app, protocol)
    _, headers, wire_body, ok = split_response(raw)
    te = [v for k, v in headers if k.lower() == "transfer-encoding"]
    chunked_header = any(v.lower() == "chunked" for v in te)
    framed = wire_body == b"%x\r\n%s\r\n0\r\n\r\n" % (len(body), body)
    # a body that is neither the plain payload nor its correct chunked framing counts as "not framed":
    # the table then disagrees with the header bit / the model and the obligation breaks
    return chunked_header, framed


def serving_structure():
    """facts read off the AST of serving.py (no execution): which rfile methods DechunkedInput uses -
    the model's rfile.read(n) is the *blocking* read ("n bytes unless the stream ends") - and how
    make_environ unfolds header values"""
    import ast
    import os

    from extract_lib import REPO

    tree = ast.parse(open(os.path.join(REPO, "src", "werkzeug", "serving.py")).read())
    facts = {"rfileMethods": [], "payloadReadIsBlocking": False, "sizeLineIsReadline": False, "valueOps": [], "unfoldIsReplaceCrlf": False}
    cls = {n.name: n for n in tree.body if isinstance(n, ast.ClassDef)}

    def rfile_calls(node):
        out = []
        for n in ast.walk(node):
            if isinstance(n, ast.Call) and isinstance(n.func, ast.Attribute) and isinstance(n.func.value, ast.Attribute) \
                    and n.func.value.attr == "_rfile" and isinstance(n.func.value.value, ast.Name) and n.func.value.value.id == "self":
                out.append(n)
        return out

    d = cls.get("DechunkedInput")
    if d is not None:
        fns = {n.name: n for n in d.body if isinstance(n, ast.FunctionDef)}
        calls = [c for f in fns.values() for c in rfile_calls(f)]
        facts["rfileMethods"] = sorted({c.func.attr for c in calls})
        ri = fns.get("readinto")
        if ri is not None:
            payload = [c for c in rfile_calls(ri) if c.args]  # the call that passes a size
            facts["payloadReadIsBlocking"] = len(payload) == 1 and payload[0].func.attr == "read" and len(payload[0].args) == 1 and not payload[0].keywords
        rcl = fns.get("read_chunk_len")
        if rcl is not None:
            c = rfile_calls(rcl)
            facts["sizeLineIsReadline"] = len(c) == 1 and c[0].func.attr == "readline" and not c[0].args
    h = cls.get("WSGIRequestHandler")
    if h is not None:
        me = next((n for n in h.body if isinstance(n, ast.FunctionDef) and n.name == "make_environ"), None)
        if me is not None:
            loops = [n for n in ast.walk(me) if isinstance(n, ast.For) and isinstance(n.target, ast.Tuple)
                     and [getattr(e, "id", None) for e in n.target.elts] == ["key", "value"]]
            if len(loops) == 1:
                ops = []
                for n in ast.walk(loops[0]):
                    if isinstance(n, ast.Assign) and any(isinstance(t, ast.Name) and t.id == "value" for t in n.targets):
                        ops.append(ast.unparse(n.value))
                facts["valueOps"] = ops
                # the only rewriting of the header value: removal of the CRLF of folded lines (and the comma-join)
                facts["unfoldIsReplaceCrlf"] = ops == ["value.replace('\\r\\n', '')", "f'{environ[key]},{value}'"]
    return facts


def combo_index(mi, cl, pi, ri):
    return ((mi * 2 + cl) * 2 + pi) * 2 + ri


@generator("Framing")
def gen_framing():
    hdr, frm = [], []
    for code in range(STATUS_LO, STATUS_HI):
        a = b = 0
        for mi, m in enumerate(METHODS):
            for cl in (0, 1):
                for pi, p in enumerate(PROTOCOLS):
                    for ri, r in enumerate(REQ_VERSIONS):
                        h, f = framing_of(code, m, bool(cl), p, r)
                        k = combo_index(mi, cl, pi, ri)
                        a |= int(h) << k
                        b |= int(f) << k
        hdr.append(str(a))
        frm.append(str(b))
    facts = serving_structure()
    body = f"""namespace Wz.Gen.Framing

/-! facts read off the AST of serving.py (tools/gen/c19.py: serving_structure) -/

/-- the methods `DechunkedInput` calls on `self._rfile`: {facts["rfileMethods"]} -/
def rfileMethodsAreReadAndReadline : Bool := {lean_bool(facts["rfileMethods"] == ["read", "readline"])}
/-- the chunk payload is fetched by exactly one call `self._rfile.read(n)` -/
def payloadReadIsBlocking : Bool := {lean_bool(facts["payloadReadIsBlocking"])}
/-- the size line is fetched by `self._rfile.readline()` -/
def sizeLineIsReadline : Bool := {lean_bool(facts["sizeLineIsReadline"])}
/-- in `make_environ`'s header loop the value is rewritten only by {facts["valueOps"]} -/
def unfoldIsReplaceCrlf : Bool := {lean_bool(facts["unfoldIsReplaceCrlf"])}

def statusLo : Nat := {STATUS_LO}
def nStatus : Nat := {STATUS_HI - STATUS_LO}
/-- methods {METHODS}, handler protocol_version {PROTOCOLS}, request-line version {REQ_VERSIONS};
bit `((method*2 + hasContentLength)*2 + protocol)*2 + requestVersion` of entry `code - statusLo` -/
def nMethods : Nat := {len(METHODS)}
def nCombos : Nat := {len(METHODS) * 8}

/-- did the real handler send `Transfer-Encoding: chunked`? one bit set per combination -/
def chunkedHeader : List Nat := {lean_list(hdr, 20)}

/-- was the body on the wire chunk-framed (size line, data, CRLF, zero chunk)? -/
def bodyFramed : List Nat := {lean_list(frm, 20)}

end Wz.Gen.Framing
"""
    return write("Framing", body, "src/werkzeug/serving.py (WSGIRequestHandler.run_wsgi)")
