"""C19: the development server's response framing decision, by exhaustive evaluation of the real
WSGIRequestHandler (in memory: BytesIO rfile/wfile, no socket, the post-response drain's selector
stubbed). Also used by harness/c19.py (imported by path)."""
import io
import types
from unittest import mock

from extract_lib import generator, lean_bool, lean_list, write

METHODS = ["GET", "HEAD", "POST"]
PROTOCOLS = ["HTTP/1.0", "HTTP/1.1"]  # handler.protocol_version (set by the server)
REQ_VERSIONS = ["HTTP/1.0", "HTTP/1.1"]  # version on the request line
STATUS_LO, STATUS_HI = 100, 600


class FakeSelector:
    def register(self, *a, **k):
        pass

    def select(self, timeout=None):
        return []

    def close(self):
        pass


class FakeConn:
    """stands for the socket; no getpeercert (plain HTTP)"""


def make_server(app):
    return types.SimpleNamespace(
        app=app,
        ssl_context=None,
        multithread=False,
        multiprocess=False,
        server_address=("127.0.0.1", 5000),
        passthrough_errors=False,
        _server_version="Werkzeug/verif",
        log=lambda *a, **k: None,
    )


def run_in_memory(raw_request: bytes, app, protocol_version="HTTP/1.1", want_handler=False):
    """feed one request to a real WSGIRequestHandler; returns everything it wrote
    (and the handler object when asked: `handler.headers` is http.server's parse result)"""
    from werkzeug import serving

    H = type("H", (serving.WSGIRequestHandler,), {"protocol_version": protocol_version})
    h = H.__new__(H)
    h.request = h.connection = FakeConn()
    h.client_address = ("127.0.0.1", 40000)
    h.server = make_server(app)
    h.rfile = io.BytesIO(raw_request)
    h.wfile = io.BytesIO()
    with mock.patch.object(serving.selectors, "DefaultSelector", FakeSelector), mock.patch.object(serving, "_log", lambda *a, **k: None):
        h.handle()
    if want_handler:
        return h.wfile.getvalue(), h
    return h.wfile.getvalue()


def run_socketpair(raw_request: bytes, app, protocol_version="HTTP/1.1", split_at=None, pause=0.02):
    """drive a real WSGIRequestHandler in-process over a socket pair (real sockets, real selectors);
    returns every byte the client end received. `split_at`: the request is written in two pieces
    (cut at that offset) from a second thread, with a pause between them, while the handler runs"""
    import logging
    import socket

    from werkzeug import serving

    logging.getLogger("werkzeug").setLevel(logging.CRITICAL)  # the handler logs every request
    H = type("H", (serving.WSGIRequestHandler,), {"protocol_version": protocol_version})
    c, s = socket.socketpair()
    try:
        c.settimeout(10)
        s.settimeout(10)
        sender = None
        if split_at is None:
            c.sendall(raw_request)
            c.shutdown(socket.SHUT_WR)
        else:
            import threading
            import time

            def send():
                try:
                    c.sendall(raw_request[:split_at])
                    time.sleep(pause)
                    c.sendall(raw_request[split_at:])
                    c.shutdown(socket.SHUT_WR)
                except OSError:
                    pass

            sender = threading.Thread(target=send, daemon=True)
            sender.start()
        H(s, ("127.0.0.1", 40000), make_server(app))  # setup(), handle(), finish()
        if sender is not None:
            sender.join(10)
        s.close()
        data = b""
        while True:
            try:
                chunk = c.recv(65536)
            except OSError:  # the server closed with request bytes unread: what was received is the answer
                break
            if not chunk:
                break
            data += chunk
        return data
    finally:
        c.close()
        s.close()


def split_response(raw: bytes):
    head, sep, body = raw.partition(b"\r\n\r\n")
    lines = head.split(b"\r\n")
    status_line = lines[0]
    headers = []
    for ln in lines[1:]:
        k, _, v = ln.partition(b":")
        headers.append((k.decode("latin-1"), v.strip().decode("latin-1")))
    return status_line, headers, body, bool(sep)


def framing_of(code, method, has_cl, protocol, req_version, body=b"hello"):
    """(Transfer-Encoding: chunked header sent, body on the wire is chunk-framed)"""

    def app(environ, start_response):
        headers = [("Content-Type", "text/plain")]
        if has_cl:
            headers.append(("Content-Length", str(len(body))))
        start_response(f"{code} Status", headers)
        return [body]

    raw = run_in_memory(f"{method} /x {req_version}\r\nHost: localhost\r\n\r\n".encode(), app, protocol)
    _, headers, wire_body, ok = split_response(raw)
    te = [v for k, v in headers if k.lower() == "transfer-encoding"]
    chunked_header = any(v.lower() == "chunked" for v in te)
    framed = wire_body == b"%x\r\n%s\r\n0\r\n\r\n" % (len(body), body)
    # a body that is neither the plain payload nor its correct chunked framing counts as "not framed":
    # the table then disagrees with the header bit / the model and the obligation breaks
    return chunked_header, framed


def serving_structure():
    """facts read off the AST of serving.py (no execution): which rfile methods DechunkedInput uses -
    the model's rfile.read(n) is the *blocking* read ("n bytes unless the stream ends") - and how
    make_environ unfolds header values"""
    import ast
    import os

    from extract_lib import REPO

    tree = ast.parse(open(os.path.join(REPO, "src", "werkzeug", "serving.py")).read())
    facts = {"rfileMethods": [], "payloadReadIsBlocking": False, "sizeLineIsReadline": False, "valueOps": [], "unfoldIsReplaceCrlf": False}
    cls = {n.name: n for n in tree.body if isinstance(n, ast.ClassDef)}

    def rfile_calls(node):
        out = []
        for n in ast.walk(node):
            if isinstance(n, ast.Call) and isinstance(n.func, ast.Attribute) and isinstance(n.func.value, ast.Attribute) \
                    and n.func.value.attr == "_rfile" and isinstance(n.func.value.value, ast.Name) and n.func.value.value.id == "self":
                out.append(n)
        return out

    d = cls.get("DechunkedInput")
    if d is not None:
        fns = {n.name: n for n in d.body if isinstance(n, ast.FunctionDef)}
        calls = [c for f in fns.values() for c in rfile_calls(f)]
        facts["rfileMethods"] = sorted({c.func.attr for c in calls})
        ri = fns.get("readinto")
        if ri is not None:
            payload = [c for c in rfile_calls(ri) if c.args]  # the call that passes a size
            facts["payloadReadIsBlocking"] = len(payload) == 1 and payload[0].func.attr == "read" and len(payload[0].args) == 1 and not payload[0].keywords
        rcl = fns.get("read_chunk_len")
        if rcl is not None:
            c = rfile_calls(rcl)
            facts["sizeLineIsReadline"] = len(c) == 1 and c[0].func.attr == "readline" and not c[0].args
    h = cls.get("WSGIRequestHandler")
    if h is not None:
        me = next((n for n in h.body if isinstance(n, ast.FunctionDef) and n.name == "make_environ"), None)
        if me is not None:
            loops = [n for n in ast.walk(me) if isinstance(n, ast.For) and isinstance(n.target, ast.Tuple)
                     and [getattr(e, "id", None) for e in n.target.elts] == ["key", "value"]]
            if len(loops) == 1:
                ops = []
                for n in ast.walk(loops[0]):
                    if isinstance(n, ast.Assign) and any(isinstance(t, ast.Name) and t.id == "value" for t in n.targets):
                        ops.append(ast.unparse(n.value))
                facts["valueOps"] = ops
                # the only rewriting of the header value: removal of the CRLF of folded lines (and the comma-join)
                facts["unfoldIsReplaceCrlf"] = ops == ["value.replace('\\r\\n', '')", "f'{environ[key]},{value}'"]
    return facts


def combo_index(mi, cl, pi, ri):
    return ((mi * 2 + cl) * 2 + pi) * 2 + ri


@generator("Framing")
def gen_framing():
    hdr, frm = [], []
    for code in range(STATUS_LO, STATUS_HI):
        a = b = 0
        for mi, m in enumerate(METHODS):
            for cl in (0, 1):
                for pi, p in enumerate(PROTOCOLS):
                    for ri, r in enumerate(REQ_VERSIONS):
                        h, f = framing_of(code, m, bool(cl), p, r)
                        k = combo_index(mi, cl, pi, ri)
                        a |= int(h) << k
                        b |= int(f) << k
        hdr.append(str(a))
        frm.append(str(b))
    facts = serving_structure()
    body = f"""namespace Wz.Gen.Framing

/-! facts read off the AST of serving.py (tools/gen/c19.py: serving_structure) -/

/-- the methods `DechunkedInput` calls on `self._rfile`: {facts["rfileMethods"]} -/
def rfileMethodsAreReadAndReadline : Bool := {lean_bool(facts["rfileMethods"] == ["read", "readline"])}
/-- the chunk payload is fetched by exactly one call `self._rfile.read(n)` -/
def payloadReadIsBlocking : Bool := {lean_bool(facts["payloadReadIsBlocking"])}
/-- the size line is fetched by `self._rfile.readline()` -/
def sizeLineIsReadline : Bool := {lean_bool(facts["sizeLineIsReadline"])}
/-- in `make_environ`'s header loop the value is rewritten only by {facts["valueOps"]} -/
def unfoldIsReplaceCrlf : Bool := {lean_bool(facts["unfoldIsReplaceCrlf"])}

def statusLo : Nat := {STATUS_LO}
def nStatus : Nat := {STATUS_HI - STATUS_LO}
/-- methods {METHODS}, handler protocol_version {PROTOCOLS}, request-line version {REQ_VERSIONS};
bit `((method*2 + hasContentLength)*2 + protocol)*2 + requestVersion` of entry `code - statusLo` -/
def nMethods : Nat := {len(METHODS)}
def nCombos : Nat := {len(METHODS) * 8}

/-- did the real handler send `Transfer-Encoding: chunked`? one bit set per combination -/
def chunkedHeader : List Nat := {lean_list(hdr, 20)}

/-- was the body on the wire chunk-framed (size line, data, CRLF, zero chunk)? -/
def bodyFramed : List Nat := {lean_list(frm, 20)}

end Wz.Gen.Framing
"""
    return write("Framing", body, "src/werkzeug/serving.py (WSGIRequestHandler.run_wsgi)")


def run_wsgi_structure():
    """facts read off the AST of WSGIRequestHandler.run_wsgi (no execution) that the state-machine model
    (Model/DevServerRun.lean) transcribes; unknown shapes give False / [] and break the obligation"""
    import ast
    import os

    from extract_lib import REPO

    tree = ast.parse(open(os.path.join(REPO, "src", "werkzeug", "serving.py")).read())
    h = next(n for n in tree.body if isinstance(n, ast.ClassDef) and n.name == "WSGIRequestHandler")
    rw = next(n for n in h.body if isinstance(n, ast.FunctionDef) and n.name == "run_wsgi")
    inner = {n.name: n for n in rw.body if isinstance(n, ast.FunctionDef)}
    u = ast.unparse
    f = {"expectTest": "", "continueLiteral": b"", "zeroChunkLiteral": b"", "writeAsserts": [], "sentOnlyWhenNone": False,
         "startResponseTests": [], "closingWriteTest": "", "terminatorTest": "", "closeInFinally": False, "appCallOutsideTry": False,
         "rollbackOnlyWhenUnsent": False, "fallbackIsInternalServerError": False, "fallbackErrorsSwallowed": False,
         "wfileWritesInWrite": [], "connectionCloseAlways": False}
    first = rw.body[0]
    if isinstance(first, ast.If) and len(first.body) == 1:
        f["expectTest"] = u(first.test)
        c = first.body[0]
        if isinstance(c, ast.Expr) and isinstance(c.value, ast.Call) and u(c.value.func) == "self.wfile.write" and isinstance(c.value.args[0], ast.Constant):
            f["continueLiteral"] = c.value.args[0].value
    w = inner.get("write")
    if w is not None:
        f["writeAsserts"] = [u(s.test) for s in w.body if isinstance(s, ast.Assert)]
        heads = [s for s in w.body if isinstance(s, ast.If) and u(s.test) == "status_sent is None"]
        sends = [n for n in ast.walk(w) if isinstance(n, ast.Call) and u(n.func) in ("self.send_response", "self.send_header", "self.end_headers")]
        f["sentOnlyWhenNone"] = len(heads) == 1 and all(any(n is m for m in ast.walk(heads[0])) for n in sends) and bool(sends)
        f["wfileWritesInWrite"] = sorted(u(n.args[0]) for n in ast.walk(w) if isinstance(n, ast.Call) and u(n.func) == "self.wfile.write")
        if heads:
            conn = [n for n in heads[0].body if isinstance(n, ast.Expr) and u(n.value) == "self.send_header('Connection', 'close')"]
            f["connectionCloseAlways"] = len(conn) == 1
    sr = inner.get("start_response")
    if sr is not None:
        f["startResponseTests"] = [u(n.test) for n in ast.walk(sr) if isinstance(n, ast.If)]
    ex = inner.get("execute")
    if ex is not None and len(ex.body) == 2 and isinstance(ex.body[1], ast.Try):
        f["appCallOutsideTry"] = u(ex.body[0]) == "application_iter = app(environ, start_response)"
        tr = ex.body[1]
        ifs = [s for s in tr.body if isinstance(s, ast.If)]
        for s in ifs:
            if len(s.body) == 1 and u(s.body[0]) == "write(b'')":
                f["closingWriteTest"] = u(s.test)
            if len(s.body) == 1 and isinstance(s.body[0], ast.Expr) and isinstance(s.body[0].value, ast.Call) and u(s.body[0].value.func) == "self.wfile.write":
                f["terminatorTest"] = u(s.test)
                f["zeroChunkLiteral"] = s.body[0].value.args[0].value
        closes = [s for s in tr.finalbody if isinstance(s, ast.If) and u(s.test) == "hasattr(application_iter, 'close')" and u(s.body[0]) == "application_iter.close()"]
        all_closes = [n for n in ast.walk(ex) if isinstance(n, ast.Call) and u(n.func) == "application_iter.close"]
        f["closeInFinally"] = len(closes) == 1 and len(all_closes) == 1 and not tr.handlers
    outer = [s for s in rw.body if isinstance(s, ast.Try)]
    if len(outer) == 1:
        hd = [x for x in outer[0].handlers if x.type is not None and u(x.type) == "Exception"]
        if len(hd) == 1:
            body = hd[0].body
            rb = [n for n in ast.walk(hd[0]) if isinstance(n, ast.If) and u(n.test) == "status_sent is None"]
            f["rollbackOnlyWhenUnsent"] = len(rb) == 1 and [u(s) for s in rb[0].body] == ["status_set = None", "headers_set = None"] and not rb[0].orelse
            inner_try = [s for s in body if isinstance(s, ast.Try)]
            if len(inner_try) == 1:
                calls = [u(n) for n in ast.walk(inner_try[0]) if isinstance(n, ast.Call) and u(n.func) == "execute"]
                f["fallbackIsInternalServerError"] = calls == ["execute(InternalServerError())"]
                hh = inner_try[0].handlers
                f["fallbackErrorsSwallowed"] = len(hh) == 1 and u(hh[0].type) == "Exception" and [u(s) for s in hh[0].body] == ["pass"]
    return f


@generator("RunWsgiFacts")
def gen_run_wsgi_facts():
    f = run_wsgi_structure()
    from extract_lib import lean_bytes, lean_str

    def sl(xs):
        return "[" + ", ".join(lean_str(x) for x in xs) + "]"

    body = f"""namespace Wz.Gen.RunWsgiFacts

/-! facts read off the AST of `WSGIRequestHandler.run_wsgi` (tools/gen/c19.py: run_wsgi_structure) -/

/-- the test of the first statement (`if …: self.wfile.write(<continueLiteral>)`) -/
def expectTest : String := {lean_str(f["expectTest"])}
def continueLiteral : List UInt8 := {lean_bytes(f["continueLiteral"])}
/-- the `assert`s at the top of `write` -/
def writeAsserts : List String := {sl(f["writeAsserts"])}
/-- `send_response` / `send_header` / `end_headers` are called only inside `if status_sent is None:` -/
def sentOnlyWhenNone : Bool := {lean_bool(f["sentOnlyWhenNone"])}
/-- `self.send_header("Connection", "close")` is an unconditional statement of that block -/
def connectionCloseAlways : Bool := {lean_bool(f["connectionCloseAlways"])}
/-- arguments of the `self.wfile.write(...)` calls in `write`, sorted -/
def wfileWritesInWrite : List String := {sl(f["wfileWritesInWrite"])}
/-- the `if` / `elif` tests of `start_response`, outermost first -/
def startResponseTests : List String := {sl(f["startResponseTests"])}
/-- `execute` calls the application before its `try` -/
def appCallOutsideTry : Bool := {lean_bool(f["appCallOutsideTry"])}
/-- the test guarding the closing `write(b"")` -/
def closingWriteTest : String := {lean_str(f["closingWriteTest"])}
/-- the test guarding the terminating chunk, and the chunk -/
def terminatorTest : String := {lean_str(f["terminatorTest"])}
def zeroChunkLiteral : List UInt8 := {lean_bytes(f["zeroChunkLiteral"])}
/-- the only `application_iter.close()` sits in the `finally` of `execute`, under `hasattr(…, "close")` -/
def closeInFinally : Bool := {lean_bool(f["closeInFinally"])}
/-- error path: `if status_sent is None: status_set = None; headers_set = None` -/
def rollbackOnlyWhenUnsent : Bool := {lean_bool(f["rollbackOnlyWhenUnsent"])}
/-- ... then `execute(InternalServerError())` inside `try: … except Exception: pass` -/
def fallbackIsInternalServerError : Bool := {lean_bool(f["fallbackIsInternalServerError"])}
def fallbackErrorsSwallowed : Bool := {lean_bool(f["fallbackErrorsSwallowed"])}

end Wz.Gen.RunWsgiFacts
"""
    return write("RunWsgiFacts", body, "src/werkzeug/serving.py (WSGIRequestHandler.run_wsgi)")


# request header names -> environ keys: every branch of make_environ's key mapping
ENV_NAMES = ["Content-Type", "content-type", "CONTENT-TYPE", "Content-Length", "content-length", "Content_Type", "Content_Length", "Content-Encoding",
             "content-encoding", "Content-Disposition", "Content-Range", "Content-MD5", "Content-Language", "Content-Location", "Content-Typex", "Content-Type-",
             "Content-Lengths", "X-Content-Type", "X-Content-Length", "Content", "Content-", "Content-Type_", "Http-Content-Type", "Http-Host", "Host", "HOST",
             "X-A", "x-a", "X_A", "X-A_B", "X-A-B", "Accept", "Cookie", "User-Agent", "User_Agent", "Server-Name", "Remote-Addr", "Path-Info", "Wsgi.Input",
             "Transfer-Encoding", "Expect", "X1", "X.Dot"]

_BASE_ENV_KEYS = {"SERVER_SOFTWARE", "REQUEST_METHOD", "SCRIPT_NAME", "PATH_INFO", "QUERY_STRING", "REQUEST_URI", "RAW_URI", "REMOTE_ADDR", "REMOTE_PORT",
                  "SERVER_NAME", "SERVER_PORT", "SERVER_PROTOCOL", "SSL_CLIENT_CERT"}


def env_of_headers(headers):
    """the environ entries the real make_environ derives from these request headers (everything that is not
    one of its fixed keys), in insertion order"""
    seen = {}

    def app(environ, start_response):
        seen["env"] = [(k, v) for k, v in environ.items() if isinstance(v, str) and k not in _BASE_ENV_KEYS and not k.startswith(("wsgi.", "werkzeug."))]
        start_response("200 OK", [("Content-Length", "0")])
        return []

    raw = "GET / HTTP/1.1\r\n" + "".join(f"{k}: {v}\r\n" for k, v in headers) + "\r\n"
    run_in_memory(raw.encode("latin-1"), app)
    return seen.get("env")


@generator("EnvKeys")
def gen_env_keys():
    def lstr(x):
        return "[" + ", ".join(f"Char.ofNat {ord(c)}" for c in x) + "]"

    rows = []
    for name in ENV_NAMES:
        # the header twice with different values (the repeated-header rule), next to an unrelated one
        obs = env_of_headers([(name, "v1"), ("X-Other", "o"), (name, "v2")])
        if obs is None:
            raise RuntimeError(f"the application was not called for header name {name!r}")
        rows.append(f"({lstr(name)}, [" + ", ".join(f"({lstr(k)}, {lstr(v)})" for k, v in obs) + "])")
    body = f"""namespace Wz.Gen.EnvKeys

/-- for each request header name: the environ entries (beyond make_environ's fixed keys, in insertion order)
that the real `make_environ` derived from the request headers `name: v1`, `X-Other: o`, `name: v2` -/
def table : List (List Char × List (List Char × List Char)) := {lean_list(rows, 1)}

end Wz.Gen.EnvKeys
"""
    return write("EnvKeys", body, "src/werkzeug/serving.py (WSGIRequestHandler.make_environ)")
