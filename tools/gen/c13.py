"""C13: cookie escape / quoting tables evaluated from the live module objects."""
import importlib

import ast
import os

from extract_lib import REPO, generator, lean_bool, lean_bytes, lean_list, lean_str, write

def dump_cookie_path_safe():
    """the `safe=` literal of the `quote(path, ...)` call inside `dump_cookie`, found by AST"""
    tree = ast.parse(open(os.path.join(REPO, "src", "werkzeug", "http.py")).read())
    for fn in ast.walk(tree):
        if isinstance(fn, ast.FunctionDef) and fn.name == "dump_cookie":
            hits = []
            for node in ast.walk(fn):
                if isinstance(node, ast.Call) and getattr(node.func, "id", getattr(node.func, "attr", None)) == "quote":
                    if node.args and isinstance(node.args[0], ast.Name) and node.args[0].id == "path":
                        for kw in node.keywords:
                            if kw.arg == "safe":
                                hits.append(ast.literal_eval(kw.value))
            if len(hits) != 1:
                raise RuntimeError(f"dump_cookie: expected exactly one quote(path, safe=<literal>) call, found {hits!r}")
            return hits[0]
    raise RuntimeError("dump_cookie not found")


def regex_shapes_ok():
    """The per-character tables below describe the regexes completely only if (a) the no-quote
    pattern is `<one character class>*` used with fullmatch, (b) the slash pattern is one character
    class (applied per byte by .sub). Checked on the parsed patterns and on dump_cookie's AST."""
    import re

    http = importlib.import_module("werkzeug.http")
    try:
        parser = re._parser  # py3.11+
        consts = re._constants
    except AttributeError:  # pragma: no cover
        import sre_constants as consts
        import sre_parse as parser
    noq = list(parser.parse(http._cookie_no_quote_re.pattern, http._cookie_no_quote_re.flags))
    a = (
        len(noq) == 1
        and noq[0][0] is consts.MAX_REPEAT
        and noq[0][1][0] == 0
        and noq[0][1][1] == consts.MAXREPEAT
        and len(list(noq[0][1][2])) == 1
        and list(noq[0][1][2])[0][0] is consts.IN
    )
    sl = list(parser.parse(http._cookie_slash_re.pattern, http._cookie_slash_re.flags))
    b = len(sl) == 1 and sl[0][0] is consts.IN
    # dump_cookie must use _cookie_no_quote_re.fullmatch(value) and _cookie_slash_re.sub(...)
    tree = ast.parse(open(os.path.join(REPO, "src", "werkzeug", "http.py")).read())
    methods = set()
    for fn in ast.walk(tree):
        if isinstance(fn, ast.FunctionDef) and fn.name == "dump_cookie":
            for node in ast.walk(fn):
                if isinstance(node, ast.Attribute) and isinstance(node.value, ast.Name) and node.value.id in ("_cookie_no_quote_re", "_cookie_slash_re"):
                    methods.add((node.value.id, node.attr))
    c = methods == {("_cookie_no_quote_re", "fullmatch"), ("_cookie_slash_re", "sub")}
    return bool(a), bool(b), bool(c)


def decimal_digit_tables():
    """(DIGIT ZERO code points of the complete runs of ten, stray decimal digits, probe of the live int())"""
    import unicodedata

    dec = {c: unicodedata.decimal(chr(c)) for c in range(0x110000) if chr(c).isdecimal()}
    zeros = [c for c, v in sorted(dec.items()) if v == 0 and all(dec.get(c + d) == d for d in range(10))]
    covered = {z + d for z in zeros for d in range(10)}
    stray = sorted((c, v) for c, v in dec.items() if c not in covered)
    ok = True
    for z in zeros:
        for d in range(10):
            ok = ok and int(chr(z + d)) == d
        ok = ok and int(chr(z + 7) + "_" + chr(z)) == 70
    for c in range(0x110000):
        if c in dec:
            continue
        try:
            int(chr(c))
            ok = False
        except ValueError:
            pass
    return zeros, stray, ok


@generator("Cookie")
def gen_cookie():
    http = importlib.import_module("werkzeug.http")
    sans = importlib.import_module("werkzeug.sansio.http")
    noq = [bool(http._cookie_no_quote_re.fullmatch(chr(c))) for c in range(256)]
    # the pattern is compiled with re.ASCII: nothing above 0xff may match
    high = any(http._cookie_no_quote_re.fullmatch(chr(c)) for c in range(256, 0x110000))
    slash = [bool(http._cookie_slash_re.fullmatch(bytes([b]))) for b in range(256)]
    smap = [http._cookie_slash_map.get(bytes([b])) for b in range(256)]
    # multi-byte keys in the map would never be hit by the single-byte regex
    extra = sorted(k for k in http._cookie_slash_map if len(k) != 1)
    # unslash: which single bytes does `.` accept after a backslash, and the octal form
    un = sans._cookie_unslash_re
    dot = [bool(un.fullmatch(b"\\" + bytes([b]))) for b in range(256)]
    octal = []
    for a in range(256):
        # first digit class / following digit class of the 3-digit escape
        octal.append(bool(un.fullmatch(b"\\" + bytes([a]) + b"00")) and len(un.fullmatch(b"\\" + bytes([a]) + b"00").group(1)) == 3)
    octal2 = []
    for a in range(256):
        m = un.fullmatch(b"\\0" + bytes([a]) + b"0")
        octal2.append(bool(m) and len(m.group(1)) == 3)
    spaces = [c for c in range(0x110000) if chr(c).isspace()]
    re_spaces = [c for c in range(0x110000) if __import__("re").fullmatch(r"\s", chr(c), __import__("re").ASCII)]
    path_safe = dump_cookie_path_safe()
    shape_a, shape_b, shape_c = regex_shapes_ok()
    dec_zeros, dec_stray, dec_probe = decimal_digit_tables()
    body = f"""namespace Wz.Gen.Cookie

/-- the `safe=` literal of `quote(path, safe=...)` in `dump_cookie` (collected from the AST) -/
def pathSafe : String := {lean_str(path_safe)}

/-- structure checks that make the per-character tables a complete description of the regexes:
no-quote pattern = one character class under `*`; slash pattern = one character class;
`dump_cookie` uses `.fullmatch` / `.sub` on them. -/
def noQuoteIsClassStar : Bool := {lean_bool(shape_a)}
def slashIsClass : Bool := {lean_bool(shape_b)}
def dumpUsesFullmatchAndSub : Bool := {lean_bool(shape_c)}

/-- `_cookie_no_quote_re.fullmatch(chr c)` for c = 0..255. -/
def noQuote : List Bool := {lean_list([lean_bool(b) for b in noq])}

/-- does `_cookie_no_quote_re` accept any single code point above 0xff? -/
def noQuoteHigh : Bool := {lean_bool(high)}

/-- `_cookie_slash_re.fullmatch(bytes([b]))` for b = 0..255. -/
def slashSet : List Bool := {lean_list([lean_bool(b) for b in slash])}

/-- `_cookie_slash_map.get(bytes([b]))` for b = 0..255. -/
def slashMap : List (Option (List UInt8)) := {lean_list([("none" if v is None else "some " + lean_bytes(v)) for v in smap], 6)}

/-- number of keys of `_cookie_slash_map` that are not a single byte. -/
def slashMapOddKeys : Nat := {len(extra)}

/-- `_cookie_unslash_re.fullmatch(b"\\\\" + bytes([b]))`: bytes accepted as a one-byte escape. -/
def unslashDot : List Bool := {lean_list([lean_bool(b) for b in dot])}

/-- bytes accepted as the first digit of a three-digit octal escape. -/
def unslashOct1 : List Bool := {lean_list([lean_bool(b) for b in octal])}

/-- bytes accepted as a later digit of a three-digit octal escape. -/
def unslashOct23 : List Bool := {lean_list([lean_bool(b) for b in octal2])}

/-- code points for which Python's `str.isspace()` holds (what `str.strip()` removes). -/
def pySpaces : List Nat := {lean_list([str(c) for c in spaces])}

/-- code points matched by `\\s` under `re.ASCII`. -/
def reSpaces : List Nat := {lean_list([str(c) for c in re_spaces])}

/-- code points of every DIGIT ZERO `z` such that `z .. z+9` are decimal digits of values 0..9
(`str.isdecimal`, `unicodedata.decimal`): the characters `int()` reads as digits. -/
def decimalZeros : List Nat := {lean_list([str(z) for z in dec_zeros])}

/-- decimal digits outside those runs: (code point, value). The model of `int()` assumes none. -/
def decimalStray : List (Nat × Nat) := {lean_list(["(" + str(c) + ", " + str(v) + ")" for c, v in dec_stray])}

/-- probe of the live `int`: `int(chr(z+d)) == d` for every run and d = 0..9,
`int(chr(z+7) + "_" + chr(z)) == 70`, and `int(c)` raises ValueError for every single character `c`
that is not a decimal digit (all 0x110000 code points, incl. `str.isdigit` characters such as '²'). -/
def decimalIntProbe : Bool := {lean_bool(dec_probe)}

end Wz.Gen.Cookie
"""
    return write("Cookie", body, "src/werkzeug/http.py, src/werkzeug/sansio/http.py")


# --------------------------------------------------------------------------------------------
# round 3: the glue around the escaping core (attribute assembly, Response.set_cookie /
# delete_cookie, the test client's jar) as regenerated constants, AST facts and small finite
# decision tables evaluated on the live functions.


def _src(*parts):
    return open(os.path.join(REPO, "src", "werkzeug", *parts)).read()


def _find_def(tree, name, cls=None):
    for node in ast.walk(tree):
        if cls is not None:
            if isinstance(node, ast.ClassDef) and node.name == cls:
                for sub in node.body:
                    if isinstance(sub, (ast.FunctionDef,)) and sub.name == name:
                        return sub
        elif isinstance(node, ast.FunctionDef) and node.name == name:
            return node
    raise RuntimeError(f"{cls + '.' if cls else ''}{name} not found")


def _defaults(fn):
    """(parameter name, source text of its default or '<required>') in order, self excluded"""
    out = []
    a = fn.args
    pos = a.posonlyargs + a.args
    dflt = [None] * (len(pos) - len(a.defaults)) + list(a.defaults)
    for p, d in zip(pos, dflt):
        if p.arg == "self" or p.arg == "cls":
            continue
        out.append((p.arg, "<required>" if d is None else ast.unparse(d)))
    for p, d in zip(a.kwonlyargs, a.kw_defaults):
        out.append((p.arg, "<required>" if d is None else ast.unparse(d)))
    if a.kwarg is not None:
        out.append(("**" + a.kwarg.arg, "<kwargs>"))
    return out


def _single_call(fn, pred, what):
    hits = [n for n in ast.walk(fn) if isinstance(n, ast.Call) and pred(n)]
    if len(hits) != 1:
        raise RuntimeError(f"{fn.name}: expected exactly one {what} call, found {len(hits)}")
    return hits[0]


def _call_shape(call):
    """positional args and keywords of a call as source text"""
    pos = [ast.unparse(a) for a in call.args]
    kws = [("**" if k.arg is None else k.arg, ast.unparse(k.value)) for k in call.keywords]
    return pos, kws


def dump_cookie_facts():
    fn = _find_def(ast.parse(_src("http.py")), "dump_cookie")
    # the `for k, v in ((..), ...)` attribute tuple
    order = None
    for node in ast.walk(fn):
        if isinstance(node, ast.For) and isinstance(node.iter, ast.Tuple) and node.iter.elts and all(
            isinstance(e, ast.Tuple) and len(e.elts) == 2 and isinstance(e.elts[0], ast.Constant) for e in node.iter.elts
        ):
            if order is not None:
                raise RuntimeError("dump_cookie: two attribute loops")
            order = [(e.elts[0].value, ast.unparse(e.elts[1])) for e in node.iter.elts]
            loop_body = [" ".join(ast.unparse(s).split()) for s in node.body]
    if order is None:
        raise RuntimeError("dump_cookie: attribute loop not found")
    # samesite: `samesite = samesite.title()` and `samesite not in {...}`
    accepted, uses_title = None, False
    for node in ast.walk(fn):
        if isinstance(node, ast.Compare) and len(node.ops) == 1 and isinstance(node.ops[0], ast.NotIn) and ast.unparse(node.left) == "samesite":
            accepted = sorted(ast.literal_eval(node.comparators[0]))
        if isinstance(node, ast.Assign) and ast.unparse(node) == "samesite = samesite.title()":
            uses_title = True
    if accepted is None:
        raise RuntimeError("dump_cookie: samesite membership test not found")
    # "; ".join(buf) and the statements that follow the join (only the size warning may follow)
    joins = [n for n in ast.walk(fn) if isinstance(n, ast.Call) and isinstance(n.func, ast.Attribute) and n.func.attr == "join" and isinstance(n.func.value, ast.Constant)]
    if len(joins) != 1:
        raise RuntimeError("dump_cookie: expected one str.join")
    sep = joins[0].func.value.value
    # top-level statements in order, as a coarse fingerprint of the control flow
    stmts = []
    for s in fn.body:
        if isinstance(s, ast.Expr) and isinstance(s.value, ast.Constant):
            continue  # docstring
        stmts.append(ast.unparse(s).split("\n")[0])
    # partitioned => secure
    part = any(isinstance(n, ast.If) and ast.unparse(n.test) == "partitioned" and [ast.unparse(s) for s in n.body] == ["secure = True"] for n in ast.walk(fn))
    # the domain pipeline
    dom = [ast.unparse(n.value) for n in ast.walk(fn) if isinstance(n, ast.Assign) and ast.unparse(n.targets[0]) == "domain"]
    ma = [ast.unparse(n.value) for n in ast.walk(fn) if isinstance(n, ast.Assign) and ast.unparse(n.targets[0]) == "max_age"]
    # after the join nothing may assign rv again
    rv_assigns = [ast.unparse(n) for n in ast.walk(fn) if isinstance(n, ast.Assign) and ast.unparse(n.targets[0]) == "rv"]
    returns = [ast.unparse(n) for n in ast.walk(fn) if isinstance(n, ast.Return)]
    return dict(order=order, loop_body=loop_body, accepted=accepted, uses_title=uses_title, sep=sep, stmts=stmts, part=part, dom=dom, ma=ma, rv_assigns=rv_assigns, returns=returns, defaults=_defaults(fn))


def response_facts():
    tree = ast.parse(_src("sansio", "response.py"))
    sc = _find_def(tree, "set_cookie", "Response")
    dc = _find_def(tree, "delete_cookie", "Response")
    call = _single_call(sc, lambda n: getattr(n.func, "id", None) == "dump_cookie", "dump_cookie")
    add = _single_call(sc, lambda n: ast.unparse(n.func) == "self.headers.add", "self.headers.add")
    add_pos, add_kw = _call_shape(add)
    sc_pos, sc_kw = _call_shape(call)
    dcall = _single_call(dc, lambda n: ast.unparse(n.func) == "self.set_cookie", "self.set_cookie")
    dc_pos, dc_kw = _call_shape(dcall)
    # both bodies must be exactly that one call statement (plus docstring)
    def only_stmt(fn):
        body = [s for s in fn.body if not (isinstance(s, ast.Expr) and isinstance(s.value, ast.Constant))]
        return len(body) == 1 and isinstance(body[0], ast.Expr) and isinstance(body[0].value, ast.Call)

    return dict(sc_pos=sc_pos, sc_kw=sc_kw, add_first=add_pos[0] if add_pos else "", add_n=len(add_pos), add_kw=add_kw, dc_pos=dc_pos, dc_kw=dc_kw,
                sc_defaults=_defaults(sc), dc_defaults=_defaults(dc), sc_only=only_stmt(sc), dc_only=only_stmt(dc))


def jar_facts():
    tree = ast.parse(_src("test.py"))
    frh = _find_def(tree, "_from_response_header", "Cookie")
    # every string literal used as a key into `params`
    names = []
    for node in ast.walk(frh):
        if isinstance(node, ast.Call) and ast.unparse(node.func) == "params.get" and node.args and isinstance(node.args[0], ast.Constant):
            names.append(node.args[0].value)
        if isinstance(node, ast.Subscript) and ast.unparse(node.value) == "params" and isinstance(node.slice, ast.Constant):
            names.append(node.slice.value)
        if isinstance(node, ast.Compare) and isinstance(node.left, ast.Constant) and isinstance(node.left.value, str) and ast.unparse(node.comparators[0]) == "params":
            names.append(node.left.value)
    ctor = _single_call(frh, lambda n: getattr(n.func, "id", None) == "cls", "cls(...)")
    _, fields = _call_shape(ctor)
    stmts = [ast.unparse(s).split("\n")[0] for s in frh.body if not (isinstance(s, ast.Expr) and isinstance(s.value, ast.Constant))]
    cs = _find_def(tree, "set_cookie", "Client")
    cd = _find_def(tree, "delete_cookie", "Client")
    cg = _find_def(tree, "get_cookie", "Client")
    cs_call = _single_call(cs, lambda n: ast.unparse(n.func) == "Cookie._from_response_header", "Cookie._from_response_header")
    sk = _find_def(tree, "_storage_key", "Cookie")
    trh = _find_def(tree, "_to_request_header", "Cookie")
    add = _find_def(tree, "_add_cookies_to_wsgi", "Client")
    join = [n for n in ast.walk(add) if isinstance(n, ast.Call) and isinstance(n.func, ast.Attribute) and n.func.attr == "join" and isinstance(n.func.value, ast.Constant)]
    upd = _find_def(tree, "_update_cookies_from_response", "Client")
    return dict(
        names=sorted(set(names)), fields=fields, stmts=stmts,
        cs_defaults=_defaults(cs), cd_defaults=_defaults(cd), cg_defaults=_defaults(cg),
        cs_call=[ast.unparse(a) for a in cs_call.args],
        storage_key=[ast.unparse(s) for s in sk.body if isinstance(s, ast.Return)],
        to_request=[ast.unparse(s) for s in trh.body if isinstance(s, ast.Return)],
        jar_join=[j.func.value.value for j in join],
        upd_body=[ast.unparse(s).split("\n")[0] for s in ast.walk(upd) if isinstance(s, (ast.If,)) and "_should_delete" in ast.unparse(s.test)],
        upd_branches=[[ast.unparse(x) for x in s.body] + ["else"] + [ast.unparse(x) for x in s.orelse] for s in ast.walk(upd) if isinstance(s, ast.If) and "_should_delete" in ast.unparse(s.test)],
    )


MATCH_DOMAINS = ["a.com", "b.a.com", "xa.com", "com", ".a.com", "a.com.", "localhost"]
MATCH_PATHS_C = ["/", "/a", "/a/", "/a/b", "/ab", "/a b"]
MATCH_PATHS_R = ["/", "/a", "/a/", "/a/b", "/ab", "/ab/c", "/a b/c", "/b", ""]


def live_tables():
    from datetime import datetime, timezone

    http = importlib.import_module("werkzeug.http")
    test = importlib.import_module("werkzeug.test")
    from urllib.parse import quote

    safe = dump_cookie_path_safe()
    keeps = []
    upper = True
    for b in range(256):
        q = quote(bytes([b]), safe=safe)
        keep = q == chr(b)
        keeps.append(keep)
        if not keep and q != "%%%02X" % b:
            upper = False
    epoch = http.http_date(0)
    pd = http.parse_date(epoch)
    epoch_ok = pd is not None and pd.timestamp() == 0

    def mk(**kw):
        base = dict(key="k", value="v", decoded_key="k", decoded_value="v", expires=None, max_age=None, domain="a.com", origin_only=True, path="/", secure=False, http_only=False, same_site=None)
        base.update(kw)
        return test.Cookie(**base)

    sd = []
    for ma in (None, -1, 0, 1):
        for ex in (None, 0, 1):
            c = mk(max_age=ma, expires=None if ex is None else datetime.fromtimestamp(ex, tz=timezone.utc))
            sd.append((ma, ex, bool(c._should_delete)))
    dm = []
    for cd in MATCH_DOMAINS:
        for oo in (True, False):
            for sn in MATCH_DOMAINS:
                dm.append((cd, oo, sn, bool(mk(domain=cd, origin_only=oo, path="/")._matches_request(sn, "/"))))
    pm = []
    for cp in MATCH_PATHS_C:
        for rp in MATCH_PATHS_R:
            pm.append((cp, rp, bool(mk(path=cp)._matches_request("a.com", rp))))
    resp = importlib.import_module("werkzeug.sansio.response")
    iri_root = importlib.import_module("werkzeug.urls").uri_to_iri("/") == "/"
    return dict(keeps=keeps, upper=upper, epoch=epoch, epoch_ok=epoch_ok, sd=sd, dm=dm, pm=pm, max_cookie_size=resp.Response.max_cookie_size, iri_root=iri_root)


def _pairs(ps):
    return lean_list(["(" + lean_str(a) + ", " + lean_str(b) + ")" for a, b in ps], 4)


def _strs(ss):
    return lean_list([lean_str(s) for s in ss], 4)


def _opt_int(v):
    return "none" if v is None else ("some (" + str(v) + ")")


@generator("CookieGlue")
def gen_cookie_glue():
    d = dump_cookie_facts()
    r = response_facts()
    j = jar_facts()
    t = live_tables()
    body = f"""namespace Wz.Gen.CookieGlue

/-! ### `http.dump_cookie` (AST) -/

/-- the `(attribute name, local variable)` pairs of the `for k, v in (...)` loop, in source order -/
def attrOrder : List (String × String) := {_pairs(d["order"])}

/-- the statements of that loop's body -/
def attrLoopBody : List String := {_strs(d["loop_body"])}

/-- the set literal of `samesite not in {{...}}` (sorted) -/
def sameSiteAccepted : List String := {_strs(d["accepted"])}

/-- `samesite = samesite.title()` precedes the membership test -/
def sameSiteUsesTitle : Bool := {lean_bool(d["uses_title"])}

/-- the separator literal of `"; ".join(buf)` -/
def joinSep : String := {lean_str(d["sep"])}

/-- `if partitioned: secure = True` is present -/
def partitionedSetsSecure : Bool := {lean_bool(d["part"])}

/-- right-hand sides assigned to `domain` / `max_age` / `rv`, and the `return` statements -/
def domainAssigns : List String := {_strs(d["dom"])}
def maxAgeAssigns : List String := {_strs(d["ma"])}
def rvAssigns : List String := {_strs(d["rv_assigns"])}
def returns : List String := {_strs(d["returns"])}

/-- first line of every top-level statement of `dump_cookie`, in order -/
def dumpStmts : List String := {_strs(d["stmts"])}

/-- parameters and the source text of their defaults -/
def dumpDefaults : List (String × String) := {_pairs(d["defaults"])}

/-! ### `sansio.response.Response.set_cookie` / `delete_cookie` (AST) -/

/-- `set_cookie`: positional arguments and keywords of its single `dump_cookie(...)` call -/
def setCookiePos : List String := {_strs(r["sc_pos"])}
def setCookieKw : List (String × String) := {_pairs(r["sc_kw"])}
/-- ... which is the second of two positional arguments of the single `self.headers.add(...)` call whose first is -/
def setCookieHeaderName : String := {lean_str(r["add_first"])}
def setCookieAddArity : Nat := {r["add_n"]}
def setCookieAddKw : List (String × String) := {_pairs(r["add_kw"])}
def setCookieDefaults : List (String × String) := {_pairs(r["sc_defaults"])}
def setCookieSingleStatement : Bool := {lean_bool(r["sc_only"])}

/-- `delete_cookie`: positional arguments and keywords of its single `self.set_cookie(...)` call -/
def deleteCookiePos : List String := {_strs(r["dc_pos"])}
def deleteCookieKw : List (String × String) := {_pairs(r["dc_kw"])}
def deleteCookieDefaults : List (String × String) := {_pairs(r["dc_defaults"])}
def deleteCookieSingleStatement : Bool := {lean_bool(r["dc_only"])}

/-- `Response.max_cookie_size` (live class attribute) -/
def maxCookieSize : Nat := {t["max_cookie_size"]}

/-! ### `test.Cookie` / `test.Client` (AST) -/

/-- every string literal used as a key into `params` in `Cookie._from_response_header` (sorted) -/
def jarParamNames : List String := {_strs(j["names"])}

/-- keyword arguments of the `cls(...)` call: field := source expression -/
def jarFields : List (String × String) := {_pairs(j["fields"])}

/-- first line of every top-level statement of `_from_response_header` -/
def jarFromHeaderStmts : List String := {_strs(j["stmts"])}

def clientSetDefaults : List (String × String) := {_pairs(j["cs_defaults"])}
def clientDeleteDefaults : List (String × String) := {_pairs(j["cd_defaults"])}
def clientGetDefaults : List (String × String) := {_pairs(j["cg_defaults"])}
/-- arguments of `Cookie._from_response_header(...)` inside `Client.set_cookie` -/
def clientSetCall : List String := {_strs(j["cs_call"])}
def storageKeyReturn : List String := {_strs(j["storage_key"])}
def toRequestHeaderReturn : List String := {_strs(j["to_request"])}
def jarJoinSep : List String := {_strs(j["jar_join"])}
/-- the `if cookie._should_delete: pop ... else: store` statement of `_update_cookies_from_response` -/
def updateBranches : List (List String) := {lean_list([_strs(b) for b in j["upd_branches"]], 1)}

/-! ### live evaluations -/

/-- `urllib.parse.quote(bytes([b]), safe=<dump_cookie's literal>) == chr(b)` for b = 0..255 -/
def quoteKeeps : List Bool := {lean_list([lean_bool(b) for b in t["keeps"]])}

/-- every byte not kept is emitted as `%XX` with upper-case hex digits -/
def quoteUpperHex : Bool := {lean_bool(t["upper"])}

/-- `http_date(0)` -/
def epochDate : String := {lean_str(t["epoch"])}

/-- `parse_date(http_date(0)).timestamp() == 0` -/
def epochDateParsesToEpoch : Bool := {lean_bool(t["epoch_ok"])}

/-- `uri_to_iri("/") == "/"` -/
def iriRootFixed : Bool := {lean_bool(t["iri_root"])}

/-- `Cookie._should_delete` over max_age x expires-timestamp -/
def shouldDeleteTable : List (Option Int × Option Int × Bool) := {lean_list(["(" + _opt_int(a) + ", " + _opt_int(b) + ", " + lean_bool(c) + ")" for a, b, c in t["sd"]], 4)}

/-- `Cookie._matches_request(server_name, "/")` over cookie domain x origin_only x server name -/
def domainMatchTable : List (String × Bool × String × Bool) := {lean_list(["(" + lean_str(a) + ", " + lean_bool(b) + ", " + lean_str(c) + ", " + lean_bool(e) + ")" for a, b, c, e in t["dm"]], 3)}

/-- `Cookie._matches_request("a.com", request_path)` over cookie path x request path -/
def pathMatchTable : List (String × String × Bool) := {lean_list(["(" + lean_str(a) + ", " + lean_str(b) + ", " + lean_bool(c) + ")" for a, b, c in t["pm"]], 4)}

end Wz.Gen.CookieGlue
"""
    return write("CookieGlue", body, "src/werkzeug/http.py, src/werkzeug/sansio/response.py, src/werkzeug/test.py")
