"""C13: cookie escape / quoting tables evaluated from the live module objects."""
import importlib

import ast
import os

from extract_lib import REPO, generator, lean_bool, lean_bytes, lean_list, lean_str, write

def dump_cookie_path_safe():
    """the `safe=` literal of the `quote(path, ...)` call inside `dump_cookie`, found by AST"""
    tree = ast.parse(open(os.path.join(REPO, "src", "werkzeug", "http.py")).read())
    for fn in ast.walk(tree):
        if isinstance(fn, ast.FunctionDef) and fn.name == "dump_cookie":
            hits = []
            for node in ast.walk(fn):
                if isinstance(node, ast.Call) and getattr(node.func, "id", getattr(node.func, "attr", None)) == "quote":
                    if node.args and isinstance(node.args[0], ast.Name) and node.args[0].id == "path":
                        for kw in node.keywords:
                            if kw.arg == "safe":
                                hits.append(ast.literal_eval(kw.value))
            if len(hits) != 1:
                raise RuntimeError(f"dump_cookie: expected exactly one quote(path, safe=<literal>) call, found {hits!r}")
            return hits[0]
    raise RuntimeError("dump_cookie not found")


def regex_shapes_ok():
    """The per-character tables below describe the regexes completely only if (a) the no-quote
    pattern is `<one character class>*` used with fullmatch, (b) the slash pattern is one character
    class (applied per byte by .sub). Checked on the parsed patterns and on dump_cookie's AST."""
    import re

    http = importlib.import_module("werkzeug.http")
    try:
        parser = re._parser  # py3.11+
        consts = re._constants
    except AttributeError:  # pragma: no cover
        import sre_constants as consts
        import sre_parse as parser
    noq = list(parser.parse(http._cookie_no_quote_re.pattern, http._cookie_no_quote_re.flags))
    a = (
        len(noq) == 1
        and noq[0][0] is consts.MAX_REPEAT
        and noq[0][1][0] == 0
        and noq[0][1][1] == consts.MAXREPEAT
        and len(list(noq[0][1][2])) == 1
        and list(noq[0][1][2])[0][0] is consts.IN
    )
    sl = list(parser.parse(http._cookie_slash_re.pattern, http._cookie_slash_re.flags))
    b = len(sl) == 1 and sl[0][0] is consts.IN
    # dump_cookie must use _cookie_no_quote_re.fullmatch(value) and _cookie_slash_re.sub(...)
    tree = ast.parse(open(os.path.join(REPO, "src", "werkzeug", "http.py")).read())
    methods = set()
    for fn in ast.walk(tree):
        if isinstance(fn, ast.FunctionDef) and fn.name == "dump_cookie":
            for node in ast.walk(fn):
                if isinstance(node, ast.Attribute) and isinstance(node.value, ast.Name) and node.value.id in ("_cookie_no_quote_re", "_cookie_slash_re"):
                    methods.add((node.value.id, node.attr))
    c = methods == {("_cookie_no_quote_re", "fullmatch"), ("_cookie_slash_re", "sub")}
    return bool(a), bool(b), bool(c)


@generator("Cookie")
def gen_cookie():
    http = importlib.import_module("werkzeug.http")
    sans = importlib.import_module("werkzeug.sansio.http")
    noq = [bool(http._cookie_no_quote_re.fullmatch(chr(c))) for c in range(256)]
    # the pattern is compiled with re.ASCII: nothing above 0xff may match
    high = any(http._cookie_no_quote_re.fullmatch(chr(c)) for c in range(256, 0x110000))
    slash = [bool(http._cookie_slash_re.fullmatch(bytes([b]))) for b in range(256)]
    smap = [http._cookie_slash_map.get(bytes([b])) for b in range(256)]
    # multi-byte keys in the map would never be hit by the single-byte regex
    extra = sorted(k for k in http._cookie_slash_map if len(k) != 1)
    # unslash: which single bytes does `.` accept after a backslash, and the octal form
    un = sans._cookie_unslash_re
    dot = [bool(un.fullmatch(b"\\" + bytes([b]))) for b in range(256)]
    octal = []
    for a in range(256):
        # first digit class / following digit class of the 3-digit escape
        octal.append(bool(un.fullmatch(b"\\" + bytes([a]) + b"00")) and len(un.fullmatch(b"\\" + bytes([a]) + b"00").group(1)) == 3)
    octal2 = []
    for a in range(256):
        m = un.fullmatch(b"\\0" + bytes([a]) + b"0")
        octal2.append(bool(m) and len(m.group(1)) == 3)
    spaces = [c for c in range(0x110000) if chr(c).isspace()]
    re_spaces = [c for c in range(0x110000) if __import__("re").fullmatch(r"\s", chr(c), __import__("re").ASCII)]
    path_safe = dump_cookie_path_safe()
    shape_a, shape_b, shape_c = regex_shapes_ok()
    body = f"""namespace Wz.Gen.Cookie

/-- the `safe=` literal of `quote(path, safe=...)` in `dump_cookie` (collected from the AST) -/
def pathSafe : String := {lean_str(path_safe)}

/-- structure checks that make the per-character tables a complete description of the regexes:
no-quote pattern = one character class under `*`; slash pattern = one character class;
`dump_cookie` uses `.fullmatch` / `.sub` on them. -/
def noQuoteIsClassStar : Bool := {lean_bool(shape_a)}
def slashIsClass : Bool := {lean_bool(shape_b)}
def dumpUsesFullmatchAndSub : Bool := {lean_bool(shape_c)}

/-- `_cookie_no_quote_re.fullmatch(chr c)` for c = 0..255. -/
def noQuote : List Bool := {lean_list([lean_bool(b) for b in noq])}

/-- does `_cookie_no_quote_re` accept any single code point above 0xff? -/
def noQuoteHigh : Bool := {lean_bool(high)}

/-- `_cookie_slash_re.fullmatch(bytes([b]))` for b = 0..255. -/
def slashSet : List Bool := {lean_list([lean_bool(b) for b in slash])}

/-- `_cookie_slash_map.get(bytes([b]))` for b = 0..255. -/
def slashMap : List (Option (List UInt8)) := {lean_list([("none" if v is None else "some " + lean_bytes(v)) for v in smap], 6)}

/-- number of keys of `_cookie_slash_map` that are not a single byte. -/
def slashMapOddKeys : Nat := {len(extra)}

/-- `_cookie_unslash_re.fullmatch(b"\\\\" + bytes([b]))`: bytes accepted as a one-byte escape. -/
def unslashDot : List Bool := {lean_list([lean_bool(b) for b in dot])}

/-- bytes accepted as the first digit of a three-digit octal escape. -/
def unslashOct1 : List Bool := {lean_list([lean_bool(b) for b in octal])}

/-- bytes accepted as a later digit of a three-digit octal escape. -/
def unslashOct23 : List Bool := {lean_list([lean_bool(b) for b in octal2])}

/-- code points for which Python's `str.isspace()` holds (what `str.strip()` removes). -/
def pySpaces : List Nat := {lean_list([str(c) for c in spaces])}

/-- code points matched by `\\s` under `re.ASCII`. -/
def reSpaces : List Nat := {lean_list([str(c) for c in re_spaces])}

end Wz.Gen.Cookie
"""
    return write("Cookie", body, "src/werkzeug/http.py, src/werkzeug/sansio/http.py")


