"""C15: safe-set literals (AST, with call sites) and keep-quoted sets (live regexes) of werkzeug.urls."""
import ast
import importlib
import os
import re

from extract_lib import REPO, generator, lean_bool, lean_list, lean_str, write


def quote_sites(relpath):
    """every `quote(<arg>, safe=<str literal>)` call in the file: (function, argument text, literal)"""
    path = os.path.join(REPO, "src", "werkzeug", relpath)
    tree = ast.parse(open(path).read())
    sites = []
    for fn in [n for n in ast.walk(tree) if isinstance(n, ast.FunctionDef)]:
        for n in ast.walk(fn):
            if isinstance(n, ast.Call) and isinstance(n.func, ast.Name) and n.func.id in ("quote", "urlencode"):
                safe = [k.value for k in n.keywords if k.arg == "safe"]
                if not safe:
                    if n.func.id == "quote":
                        raise RuntimeError(f"{relpath}:{n.lineno}: quote() without a safe= keyword (default safe='/')")
                    continue
                if not (isinstance(safe[0], ast.Constant) and isinstance(safe[0].value, str)):
                    raise RuntimeError(f"{relpath}:{n.lineno}: safe= is not a string literal")
                sites.append((fn.name, n.func.id, ast.unparse(n.args[0]), safe[0].value, n.lineno))
    return sites


def keep_table(fn, name):
    cells = [c.cell_contents for c in (fn.__closure__ or ()) if isinstance(c.cell_contents, re.Pattern)]
    if len(cells) != 1:
        raise RuntimeError(f"{name}: expected exactly one compiled pattern in the closure")
    pat = cells[0]
    table = []
    for b in range(256):
        forms = {"%%%02X" % b, "%%%02x" % b, ("%%%02X" % b)[:2] + ("%02x" % b)[1], ("%%%02x" % b)[:2] + ("%02X" % b)[1]}
        res = {bool(pat.fullmatch(f)) for f in forms}
        if len(res) != 1:
            raise RuntimeError(f"{name}: pattern is case sensitive for byte {b:#x}")
        table.append(res.pop())
    # the pattern must be exactly "one or more kept escapes", as _make_unquote_part builds it
    choices = "|".join("%02X" % b for b in range(256) if table[b])
    if pat.pattern != f"((?:%(?:{choices}))+)" or not (pat.flags & re.I):
        raise RuntimeError(f"{name}: unexpected pattern shape {pat.pattern!r}")
    return table


@generator("UrlTables")
def gen_urltables():
    urls = importlib.import_module("werkzeug.urls")
    up = importlib.import_module("urllib.parse")
    sites = quote_sites("urls.py")
    cur = quote_sites("sansio/utils.py")

    def pick(sites, fn, arg):
        hit = [s for s in sites if s[0] == fn and s[2] == arg]
        if len(hit) != 1:
            raise RuntimeError(f"expected exactly one quote site {fn}({arg}), found {len(hit)}")
        return hit[0][3]

    named = {
        "iriPathSafe": pick(sites, "iri_to_uri", "parts.path"),
        "iriQuerySafe": pick(sites, "iri_to_uri", "parts.query"),
        "iriFragmentSafe": pick(sites, "iri_to_uri", "parts.fragment"),
        "iriUserSafe": pick(sites, "iri_to_uri", "parts.username"),
        "iriPasswordSafe": pick(sites, "iri_to_uri", "parts.password"),
        "codecErrorSafe": pick(sites, "_codec_error_url_quote", "e.object[e.start:e.end]"),
        "urlencodeSafe": pick(sites, "_urlencode", "items"),
        "curRootSafe": pick(cur, "get_current_url", "root_path.rstrip('/')"),
        "curPathSafe": pick(cur, "get_current_url", "path.lstrip('/')"),
        "curQuerySafe": pick(cur, "get_current_url", "query_string"),
    }
    n_iri = len([s for s in sites if s[0] == "iri_to_uri"])
    if n_iri != 5:
        raise RuntimeError(f"iri_to_uri: expected 5 quote sites, found {n_iri}")
    always_safe = [bytes([b]) in up._ALWAYS_SAFE_BYTES or b in up._ALWAYS_SAFE_BYTES for b in range(256)]
    tables = {
        "keepPath": keep_table(urls._unquote_path, "_unquote_path"),
        "keepQuery": keep_table(urls._unquote_query, "_unquote_query"),
        "keepFragment": keep_table(urls._unquote_fragment, "_unquote_fragment"),
        "keepUser": keep_table(urls._unquote_user, "_unquote_user"),
    }
    defs = []
    for k, v in named.items():
        defs.append(f"def {k} : List Char := {lean_str(v)}.toList\n")
    for k, v in tables.items():
        defs.append(f"/-- is `%XX` (any hex case) kept quoted by the live `{k}` pattern, XX = 0..255 -/\ndef {k} : List Bool := {lean_list([lean_bool(b) for b in v])}\n")
    allsites = ",\n  ".join(f"({lean_str(f)}, {lean_str(a)}, {lean_str(s)}.toList)" for f, _, a, s, _ in sites + cur)
    body = f"""namespace Wz.Gen.UrlTables

/-- code points of `werkzeug.urls._always_unsafe` -/
def alwaysUnsafe : List Nat := {lean_list([str(ord(c)) for c in urls._always_unsafe])}

/-- `urllib.parse._ALWAYS_SAFE_BYTES` membership for b = 0..255 (CPython, not werkzeug) -/
def alwaysSafe : List Bool := {lean_list([lean_bool(b) for b in always_safe])}

{chr(10).join(defs)}
/-- every `quote(..., safe=...)` / `urlencode(..., safe=...)` literal with its call site
(function, argument expression, literal) in urls.py and sansio/utils.py -/
def quoteSites : List (String × String × List Char) := [
  {allsites}]

/-- the safe sets `iri_to_uri` uses, by component -/
def iriSafeSets : List (String × List Char) := [
  ("path", iriPathSafe), ("query", iriQuerySafe), ("fragment", iriFragmentSafe),
  ("username", iriUserSafe), ("password", iriPasswordSafe)]

end Wz.Gen.UrlTables
"""
    return write("UrlTables", body, "src/werkzeug/urls.py, src/werkzeug/sansio/utils.py")


# ---------------------------------------------------------------------------
# UrlGlue: constants, literal sets and small finite decisions of the glue around the URL core
# (get_host, EnvironBuilder, ProxyFix, DispatcherMiddleware), each tied to the model by a
# `decide` obligation in Props/C15.lean.


def _parse(relpath):
    return ast.parse(open(os.path.join(REPO, "src", "werkzeug", relpath)).read())


def _find_func(tree, qual):
    """FunctionDef by dotted name ('Class.method', 'Class.method.inner' or 'function'); for a property with a
    setter the name 'Class.attr@setter' selects the setter"""
    want_setter = qual.endswith("@setter")
    names = qual.replace("@setter", "").split(".")
    nodes = [tree]
    for i, nm in enumerate(names):
        nxt = []
        for node in nodes:
            for ch in ast.walk(node) if i == len(names) - 1 and isinstance(node, ast.FunctionDef) else ast.iter_child_nodes(node):
                if isinstance(ch, (ast.FunctionDef, ast.ClassDef)) and ch.name == nm and ch is not node:
                    nxt.append(ch)
        nodes = nxt
    if want_setter:
        nodes = [n for n in nodes if any(isinstance(d, ast.Attribute) and d.attr == "setter" for d in n.decorator_list)]
    else:
        nodes = [n for n in nodes if not any(isinstance(d, ast.Attribute) and d.attr == "setter" for d in getattr(n, "decorator_list", []))]
    if len(nodes) != 1:
        raise RuntimeError(f"{qual}: expected exactly one definition, found {len(nodes)}")
    return nodes[0]


URL_CALLEES = {
    "quote", "unquote", "urlsplit", "urlunsplit", "urlencode", "iri_to_uri", "uri_to_iri", "_urlencode",
    "_wsgi_encoding_dance", "_wsgi_decoding_dance", "get_current_url", "_sansio_utils.get_current_url", "get_host",
    "_make_base_url", "cls._make_base_url", "self._make_base_url", "_path_encode", "parse_qsl", "parse_list_header",
}


def _calls_in_order(fn):
    out = []
    for n in sorted((n for n in ast.walk(fn) if isinstance(n, ast.Call)), key=lambda n: (n.lineno, n.col_offset)):
        name = ast.unparse(n.func)
        if name in URL_CALLEES:
            out.append(name)
    return out


def get_host_rules():
    """the `if scheme in {...} and host.endswith(":N"): host = host[:-k]` chain of sansio.utils.get_host"""
    fn = _find_func(_parse("sansio/utils.py"), "get_host")
    rules = []

    def visit_if(node):
        t = node.test
        ok = (
            isinstance(t, ast.BoolOp) and isinstance(t.op, ast.And) and len(t.values) == 2
            and isinstance(t.values[0], ast.Compare) and ast.unparse(t.values[0].left) == "scheme"
            and len(t.values[0].ops) == 1 and isinstance(t.values[0].ops[0], ast.In)
            and isinstance(t.values[0].comparators[0], ast.Set)
            and isinstance(t.values[1], ast.Call) and ast.unparse(t.values[1].func) == "host.endswith"
            and len(t.values[1].args) == 1 and isinstance(t.values[1].args[0], ast.Constant)
            and len(node.body) == 1 and isinstance(node.body[0], ast.Assign) and ast.unparse(node.body[0].targets[0]) == "host"
        )
        if not ok:
            return False
        v = node.body[0].value
        if not (isinstance(v, ast.Subscript) and ast.unparse(v.value) == "host" and isinstance(v.slice, ast.Slice) and v.slice.lower is None and isinstance(v.slice.upper, ast.UnaryOp) and isinstance(v.slice.upper.op, ast.USub) and isinstance(v.slice.upper.operand, ast.Constant)):
            raise RuntimeError(f"sansio/utils.py:{node.lineno}: get_host: the default port is not removed by a slice host[:-k]")
        schemes = sorted(e.value for e in t.values[0].comparators[0].elts)
        rules.append((schemes, t.values[1].args[0].value, v.slice.upper.operand.value))
        for o in node.orelse:
            if isinstance(o, ast.If):
                visit_if(o)
        return True

    for st in fn.body:
        if isinstance(st, ast.If) and visit_if(st):
            break
    if not rules:
        raise RuntimeError("sansio/utils.py: get_host: default-port rule chain not found")
    return rules


def make_unquote_part_sites():
    """`_unquote_<name> = _make_unquote_part("<name>", _always_unsafe [+ "<extra>"])` in urls.py"""
    tree = _parse("urls.py")
    out = []
    for st in tree.body:
        if isinstance(st, ast.Assign) and isinstance(st.value, ast.Call) and ast.unparse(st.value.func) == "_make_unquote_part":
            name, chars = st.value.args
            if isinstance(chars, ast.Name) and chars.id == "_always_unsafe":
                extra = ""
            elif isinstance(chars, ast.BinOp) and isinstance(chars.op, ast.Add) and ast.unparse(chars.left) == "_always_unsafe" and isinstance(chars.right, ast.Constant):
                extra = chars.right.value
            else:
                raise RuntimeError(f"urls.py:{st.lineno}: unexpected keep-set expression {ast.unparse(chars)}")
            out.append((ast.unparse(st.targets[0]), name.value, extra))
    return out


def environ_dict_entries():
    """the URL-related entries of the dict literal in EnvironBuilder.get_environ, and _path_encode / raw_uri"""
    fn = _find_func(_parse("test.py"), "EnvironBuilder.get_environ")
    want = ["SCRIPT_NAME", "PATH_INFO", "QUERY_STRING", "REQUEST_URI", "RAW_URI", "SERVER_NAME", "SERVER_PORT", "HTTP_HOST", "wsgi.url_scheme"]
    found = {}
    for n in ast.walk(fn):
        if isinstance(n, ast.Dict):
            for k, v in zip(n.keys, n.values):
                if isinstance(k, ast.Constant) and k.value in want:
                    found.setdefault(k.value, []).append(ast.unparse(v))
    rows = []
    for k in want:
        if len(found.get(k, [])) != 1:
            raise RuntimeError(f"test.py: get_environ: expected exactly one dict entry for {k}")
        rows.append((k, found[k][0]))
    inner = _find_func(_parse("test.py"), "EnvironBuilder.get_environ._path_encode")
    rows.append(("_path_encode(x)", "; ".join(ast.unparse(s) for s in inner.body)))
    raw = [ast.unparse(s.value) for s in ast.walk(fn) if isinstance(s, ast.Assign) and ast.unparse(s.targets[0]) == "raw_uri"]
    if len(raw) != 1:
        raise RuntimeError("test.py: get_environ: expected exactly one assignment to raw_uri")
    rows.append(("raw_uri", raw[0]))
    # later writes into the result dict for these keys (result["PATH_INFO"] = ...) would bypass the literal
    for n in ast.walk(fn):
        if isinstance(n, ast.Subscript) and isinstance(n.ctx, ast.Store) and isinstance(n.slice, ast.Constant) and n.slice.value in want:
            raise RuntimeError(f"test.py:{n.lineno}: get_environ writes {n.slice.value} outside the dict literal")
    return rows


def _stored_keys(nodes, var="environ"):
    keys = []
    for st in nodes:
        for n in sorted((n for n in ast.walk(st) if isinstance(n, ast.Subscript) and isinstance(n.ctx, ast.Store)), key=lambda n: (n.lineno, n.col_offset)):
            if ast.unparse(n.value) == var:
                keys.append(n.slice.value if isinstance(n.slice, ast.Constant) else "<" + ast.unparse(n.slice) + ">")
    return keys


def proxyfix_writes():
    """per trusted header of ProxyFix.__call__: (trust attribute, environ key read, environ keys written)"""
    fn = _find_func(_parse("middleware/proxy_fix.py"), "ProxyFix.__call__")
    rows, cur = [], {}
    for st in fn.body:
        if isinstance(st, ast.Assign) and isinstance(st.value, ast.Call) and ast.unparse(st.value.func) == "self._get_real_value":
            a, b = st.value.args
            if not (isinstance(b, ast.Call) and ast.unparse(b.func) == "environ_get" and isinstance(b.args[0], ast.Constant)):
                raise RuntimeError(f"proxy_fix.py:{st.lineno}: unexpected header expression")
            cur[ast.unparse(st.targets[0])] = (ast.unparse(a).replace("self.", ""), b.args[0].value)
        elif isinstance(st, ast.If) and isinstance(st.test, ast.Name) and st.test.id in cur:
            attr, hdr = cur[st.test.id]
            rows.append((attr, hdr, _stored_keys(st.body)))
        elif isinstance(st, (ast.Return,)) or (isinstance(st, ast.Assign) and not _stored_keys([st])) or (isinstance(st, ast.Expr) and ast.unparse(st.value).startswith("environ.update(")):
            continue
        elif _stored_keys([st]):
            raise RuntimeError(f"proxy_fix.py:{st.lineno}: environ written outside a trusted-header block")
    if len(rows) != len(cur):
        raise RuntimeError("proxy_fix.py: a trusted header value is computed but not used in an `if x:` block")
    upd = [n for n in ast.walk(fn) if isinstance(n, ast.Call) and ast.unparse(n.func) == "environ.update"]
    updkeys = []
    for u in upd:
        for n in ast.walk(u.args[0]) if u.args else []:
            if isinstance(n, ast.Dict):
                updkeys += [k.value for k in n.keys if isinstance(k, ast.Constant)]
                break
    return rows, updkeys


def dispatcher_writes():
    fn = _find_func(_parse("middleware/dispatcher.py"), "DispatcherMiddleware.__call__")
    reads = sorted({n.args[0].value for n in ast.walk(fn) if isinstance(n, ast.Call) and ast.unparse(n.func) == "environ.get" and isinstance(n.args[0], ast.Constant)})
    return _stored_keys(fn.body), reads


CALL_SITES = [
    ("test.py", "EnvironBuilder.__init__"),
    ("test.py", "EnvironBuilder.from_environ"),
    ("test.py", "EnvironBuilder._make_base_url"),
    ("test.py", "EnvironBuilder.base_url"),
    ("test.py", "EnvironBuilder.base_url@setter"),
    ("test.py", "EnvironBuilder.query_string"),
    ("test.py", "EnvironBuilder.get_environ"),
    ("sansio/utils.py", "get_current_url"),
    ("wsgi.py", "get_current_url"),
    ("wrappers/request.py", "Request.__init__"),
    ("sansio/request.py", "Request.args"),
    ("sansio/request.py", "Request.url"),
    ("sansio/request.py", "Request.base_url"),
    ("sansio/request.py", "Request.root_url"),
    ("sansio/request.py", "Request.host_url"),
    ("sansio/request.py", "Request.host"),
    ("middleware/proxy_fix.py", "ProxyFix._get_real_value"),
    ("urls.py", "_urlencode"),
]


@generator("UrlGlue")
def gen_urlglue():
    from werkzeug.sansio.utils import get_host
    from werkzeug.test import EnvironBuilder

    rules = get_host_rules()
    schemes = ["http", "https", "ws", "wss", "ftp", "", "HTTP"]
    hosts = ["h", "h:80", "h:443", "h:8080", "10.0.0.80:80", "10.0.0.80", "h80", "h:080", "h:80:80", "[::1]", "[::1]:80", "[::80]:80", "[::1]:443", "x443:443", ":80", ":443", "80", "", "h:4430", "h:180"]
    host_rows = [(s, h, get_host(s, h)) for s in schemes for h in hosts]
    srv_rows = []
    for s in ["http", "https", "ws", "wss", "ftp"]:
        for h in ["h", "h:80", "h:443", "h:8080", "h:0", "h:", "h:x", "[::1]", "[::1]:5000", "a:1:2"]:
            b = EnvironBuilder()
            b.url_scheme, b.host = s, h
            try:
                srv_rows.append((s, b.host, b.server_name, b.server_port))
            finally:
                b.close()
    # get_host without a Host header: the (SERVER_NAME, SERVER_PORT) fallback, and a Host header next to a server
    fb_rows = []
    for s in ["http", "https", "ws", "wss", "ftp"]:
        for hdr in [None, "hdr.example:8080", ""]:
            for name in ["h", "::1", "[::1]", "2001:db8::80", "10.0.0.80", "", "/tmp/sock", "a:b"]:
                for port in [None, 80, 443, 8080, 0]:
                    fb_rows.append((s, hdr, name, port, get_host(s, hdr, (name, port))))
            fb_rows.append((s, hdr, None, None, get_host(s, hdr, None)))
    keeps = make_unquote_part_sites()
    env_rows = environ_dict_entries()
    pf_rows, pf_saved = proxyfix_writes()
    dw, dr = dispatcher_writes()
    sites = []
    for rel, qual in CALL_SITES:
        sites.append((rel, qual, _calls_in_order(_find_func(_parse(rel), qual))))
    import inspect

    from werkzeug.middleware.proxy_fix import ProxyFix

    rv = _find_func(_parse("middleware/proxy_fix.py"), "ProxyFix._get_real_value")
    rv_body = [" ".join(ast.unparse(st).split()) for st in rv.body if not (isinstance(st, ast.Expr) and isinstance(st.value, ast.Constant))]
    sig = inspect.signature(ProxyFix.__init__)
    defaults = [(k, p.default) for k, p in sig.parameters.items() if k.startswith("x_")]

    def strs(xs):
        return "[" + ", ".join(lean_str(x) for x in xs) + "]"

    body = f"""namespace Wz.Gen.UrlGlue

/-- the default-port chain of `sansio.utils.get_host` (AST): (schemes, suffix tested with `endswith`,
number of characters cut by `host[:-k]`) -/
def getHostRules : List (List String × String × Nat) := [
  {(',' + chr(10) + '  ').join(f'({strs(s)}, {lean_str(suf)}, {k})' for s, suf, k in rules)}]

/-- `get_host(scheme, host_header)` evaluated on scheme x host (live function): (scheme, host, result) -/
def getHostTable : List (String × String × String) := [
  {(',' + chr(10) + '  ').join(f'({lean_str(s)}, {lean_str(h)}, {lean_str(r)})' for s, h, r in host_rows)}]

/-- `get_host(scheme, host_header, server)` (live function): (scheme, Host header or none, server =
(name, port or none) or none, result) - the fallback to SERVER_NAME / SERVER_PORT when there is no Host header -/
def getHostServerTable : List (String × Option String × Option (String × Option Nat) × String) := [
  {(',' + chr(10) + '  ').join('(' + lean_str(s) + ', ' + ('none' if hdr is None else 'some ' + lean_str(hdr)) + ', ' + ('none' if name is None else 'some (' + lean_str(name) + ', ' + ('none' if port is None else 'some ' + str(port)) + ')') + ', ' + lean_str(r) + ')' for s, hdr, name, port, r in fb_rows)}]

/-- an `EnvironBuilder` with `url_scheme` / `host` set: (scheme, host, server_name, server_port) (live object) -/
def builderServerTable : List (String × String × String × Nat) := [
  {(',' + chr(10) + '  ').join(f'({lean_str(s)}, {lean_str(h)}, {lean_str(n)}, {p})' for s, h, n, p in srv_rows)}]

/-- `_unquote_<name> = _make_unquote_part(name, _always_unsafe + extra)` (AST): (variable, name, extra) -/
def keepExtra : List (String × String × List Char) := [
  {(',' + chr(10) + '  ').join(f'({lean_str(v)}, {lean_str(n)}, {lean_str(e)}.toList)' for v, n, e in keeps)}]

/-- the URL-related entries of the dict literal in `EnvironBuilder.get_environ` (AST, unparsed),
the body of `_path_encode` and the `raw_uri` assignment -/
def environEntries : List (String × String) := [
  {(',' + chr(10) + '  ').join(f'({lean_str(k)}, {lean_str(v)})' for k, v in env_rows)}]

/-- `ProxyFix.__call__` (AST): per trusted header (trust attribute, environ key read, environ keys
assigned inside its `if value:` block, in order) -/
def proxyFixWrites : List (String × String × List String) := [
  {(',' + chr(10) + '  ').join(f'({lean_str(a)}, {lean_str(h)}, {strs(ks)})' for a, h, ks in pf_rows)}]

/-- the statements of `ProxyFix._get_real_value` (AST, unparsed, docstring dropped) -/
def realValueBody : List String := {strs(rv_body)}

/-- keys saved into `werkzeug.proxy_fix.orig` -/
def proxyFixSaved : List String := {strs(pf_saved)}

/-- `ProxyFix.__init__` defaults of the trust counts -/
def proxyFixDefaults : List (String × Nat) := [{', '.join(f'({lean_str(k)}, {v})' for k, v in defaults)}]

/-- `DispatcherMiddleware.__call__` (AST): environ keys assigned, environ keys read with `environ.get` -/
def dispatcherWrites : List String := {strs(dw)}
def dispatcherReads : List String := {strs(dr)}

/-- the URL helper calls of each glue function, in source order (AST): (file, function, callees) -/
def callSites : List (String × String × List String) := [
  {(',' + chr(10) + '  ').join(f'({lean_str(r)}, {lean_str(q)}, {strs(cs)})' for r, q, cs in sites)}]

end Wz.Gen.UrlGlue
"""
    return write("UrlGlue", body, "src/werkzeug/{sansio/utils,test,urls,wsgi}.py, middleware/{proxy_fix,dispatcher}.py, {sansio,wrappers}/request.py")
