"""C15: safe-set literals (AST, with call sites) and keep-quoted sets (live regexes) of werkzeug.urls."""
import ast
import importlib
import os
import re

from extract_lib import REPO, generator, lean_bool, lean_list, lean_str, write


def quote_sites(relpath):
    """every `quote(<arg>, safe=<str literal>)` call in the file: (function, argument text, literal)"""
    path = os.path.join(REPO, "src", "werkzeug", relpath)
    tree = ast.parse(open(path).read())
    sites = []
    for fn in [n for n in ast.walk(tree) if isinstance(n, ast.FunctionDef)]:
        for n in ast.walk(fn):
            if isinstance(n, ast.Call) and isinstance(n.func, ast.Name) and n.func.id in ("quote", "urlencode"):
                safe = [k.value for k in n.keywords if k.arg == "safe"]
                if not safe:
                    if n.func.id == "quote":
                        raise RuntimeError(f"{relpath}:{n.lineno}: quote() without a safe= keyword (default safe='/')")
                    continue
                if not (isinstance(safe[0], ast.Constant) and isinstance(safe[0].value, str)):
                    raise RuntimeError(f"{relpath}:{n.lineno}: safe= is not a string literal")
                sites.append((fn.name, n.func.id, ast.unparse(n.args[0]), safe[0].value, n.lineno))
    return sites


def keep_table(fn, name):
    cells = [c.cell_contents for c in (fn.__closure__ or ()) if isinstance(c.cell_contents, re.Pattern)]
    if len(cells) != 1:
        raise RuntimeError(f"{name}: expected exactly one compiled pattern in the closure")
    pat = cells[0]
    table = []
    for b in range(256):
        forms = {"%%%02X" % b, "%%%02x" % b, ("%%%02X" % b)[:2] + ("%02x" % b)[1], ("%%%02x" % b)[:2] + ("%02X" % b)[1]}
        res = {bool(pat.fullmatch(f)) for f in forms}
        if len(res) != 1:
            raise RuntimeError(f"{name}: pattern is case sensitive for byte {b:#x}")
        table.append(res.pop())
    # the pattern must be exactly "one or more kept escapes", as _make_unquote_part builds it
    choices = "|".join("%02X" % b for b in range(256) if table[b])
    if pat.pattern != f"((?:%(?:{choices}))+)" or not (pat.flags & re.I):
        raise RuntimeError(f"{name}: unexpected pattern shape {pat.pattern!r}")
    return table


@generator("UrlTables")
def gen_urltables():
    urls = importlib.import_module("werkzeug.urls")
    up = importlib.import_module("urllib.parse")
    sites = quote_sites("urls.py")
    cur = quote_sites("sansio/utils.py")

    def pick(sites, fn, arg):
        hit = [s for s in sites if s[0] == fn and s[2] == arg]
        if len(hit) != 1:
            raise RuntimeError(f"expected exactly one quote site {fn}({arg}), found {len(hit)}")
        return hit[0][3]

    named = {
        "iriPathSafe": pick(sites, "iri_to_uri", "parts.path"),
        "iriQuerySafe": pick(sites, "iri_to_uri", "parts.query"),
        "iriFragmentSafe": pick(sites, "iri_to_uri", "parts.fragment"),
        "iriUserSafe": pick(sites, "iri_to_uri", "parts.username"),
        "iriPasswordSafe": pick(sites, "iri_to_uri", "parts.password"),
        "codecErrorSafe": pick(sites, "_codec_error_url_quote", "e.object[e.start:e.end]"),
        "urlencodeSafe": pick(sites, "_urlencode", "items"),
        "curRootSafe": pick(cur, "get_current_url", "root_path.rstrip('/')"),
        "curPathSafe": pick(cur, "get_current_url", "path.lstrip('/')"),
        "curQuerySafe": pick(cur, "get_current_url", "query_string"),
    }
    n_iri = len([s for s in sites if s[0] == "iri_to_uri"])
    if n_iri != 5:
        raise RuntimeError(f"iri_to_uri: expected 5 quote sites, found {n_iri}")
    always_safe = [bytes([b]) in up._ALWAYS_SAFE_BYTES or b in up._ALWAYS_SAFE_BYTES for b in range(256)]
    tables = {
        "keepPath": keep_table(urls._unquote_path, "_unquote_path"),
        "keepQuery": keep_table(urls._unquote_query, "_unquote_query"),
        "keepFragment": keep_table(urls._unquote_fragment, "_unquote_fragment"),
        "keepUser": keep_table(urls._unquote_user, "_unquote_user"),
    }
    defs = []
    for k, v in named.items():
        defs.append(f"def {k} : List Char := {lean_str(v)}.toList\n")
    for k, v in tables.items():
        defs.append(f"/-- is `%XX` (any hex case) kept quoted by the live `{k}` pattern, XX = 0..255 -/\ndef {k} : List Bool := {lean_list([lean_bool(b) for b in v])}\n")
    allsites = ",\n  ".join(f"({lean_str(f)}, {lean_str(a)}, {lean_str(s)}.toList)" for f, _, a, s, _ in sites + cur)
    body = f"""namespace Wz.Gen.UrlTables

/-- code points of `werkzeug.urls._always_unsafe` -/
def alwaysUnsafe : List Nat := {lean_list([str(ord(c)) for c in urls._always_unsafe])}

/-- `urllib.parse._ALWAYS_SAFE_BYTES` membership for b = 0..255 (CPython, not werkzeug) -/
def alwaysSafe : List Bool := {lean_list([lean_bool(b) for b in always_safe])}

{chr(10).join(defs)}
/-- every `quote(..., safe=...)` / `urlencode(..., safe=...)` literal with its call site
(function, argument expression, literal) in urls.py and sansio/utils.py -/
def quoteSites : List (String × String × List Char) := [
  {allsites}]

/-- the safe sets `iri_to_uri` uses, by component -/
def iriSafeSets : List (String × List Char) := [
  ("path", iriPathSafe), ("query", iriQuerySafe), ("fragment", iriFragmentSafe),
  ("username", iriUserSafe), ("password", iriPasswordSafe)]

end Wz.Gen.UrlTables
"""
    return write("UrlTables", body, "src/werkzeug/urls.py, src/werkzeug/sansio/utils.py")
