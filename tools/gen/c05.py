"""C05: decision tables obtained by exhaustively evaluating the real
`Response.get_wsgi_headers` / `get_app_iter` over
status 100..599 x {GET, HEAD, POST} x {Content-Length preset / absent} x {sequence / stream body},
plus `_entity_headers` and `HTTP_STATUS_CODES`.

The fixed body is [b"ab", "cé"] (2 + 3 = 5 encoded bytes); the preset Content-Length is "99".
"""
import importlib

from extract_lib import generator, lean_bool, lean_str, write

METHODS = ["GET", "HEAD", "POST"]
BODY = [b"ab", "cé"]
PRESET = "99"


def rows():
    wr = importlib.import_module("werkzeug.wrappers")
    out = []
    for status in range(100, 600):
        for mi, method in enumerate(METHODS):
            for preset in (False, True):
                for stream in (False, True):
                    body = (x for x in BODY) if stream else list(BODY)
                    r = wr.Response(body, status=status)
                    if preset:
                        r.headers["Content-Length"] = PRESET
                    environ = {"REQUEST_METHOD": method, "wsgi.url_scheme": "http", "SERVER_NAME": "localhost", "SERVER_PORT": "80", "SCRIPT_NAME": "", "PATH_INFO": "/"}
                    headers = r.get_wsgi_headers(environ)
                    app_iter = r.get_app_iter(environ)
                    data = b"".join(app_iter)
                    if hasattr(app_iter, "close"):
                        app_iter.close()
                    cl = headers.getlist("Content-Length")
                    assert len(cl) <= 1
                    out.append((status, mi, preset, stream, len(data), (cl[0] if cl else None), "Content-Type" in headers))
    return out


@generator("Response")
def gen_response():
    http = importlib.import_module("werkzeug.http")
    rs = rows()

    def row(r):
        status, mi, preset, stream, n, cl, ct = r
        key = status * 12 + mi * 4 + (2 if preset else 0) + (1 if stream else 0)
        val = n + 100 * (0 if cl is None else int(cl) + 1) + 100000 * (1 if ct else 0)
        return f"({key}, {val})"

    chunks = []
    for c in range(0, len(rs), 480):
        part = rs[c : c + 480]
        lines = []
        for i in range(0, len(part), 8):
            lines.append("  " + ", ".join(row(r) for r in part[i : i + 8]))
        chunks.append(f"def wsgiTable{c // 480} : List (Nat × Nat) := [\n" + ",\n".join(lines) + "]\n")
    ents = sorted(http._entity_headers)
    codes = sorted(http.HTTP_STATUS_CODES.items())
    body = f"""namespace Wz.Gen.Response

/-! Rows of the exhaustive evaluation, encoded as (key, value) with
key   = status * 12 + method * 4 + (2 if Content-Length was preset to "99") + (1 if the body is streamed),
        method 0 = GET, 1 = HEAD, 2 = POST,
value = (number of body bytes the WSGI iterable produced)
        + 100 * (0 if the WSGI headers have no Content-Length, else its value + 1)
        + 100000 * (1 if Content-Type is still present)
for the body [b"ab", "c\\u00e9"] (5 encoded bytes). -/

{chr(10).join(chunks)}
def wsgiTable : List (Nat × Nat) :=
  {" ++ ".join(f"wsgiTable{i}" for i in range(len(chunks)))}

/-- `werkzeug.http._entity_headers` -/
def entityHeaders : List String := [{", ".join(lean_str(e) for e in ents)}]

/-- `werkzeug.http.HTTP_STATUS_CODES` -/
def statusCodes : List (Nat × String) := [
{(',' + chr(10)).join("  (" + str(k) + ", " + lean_str(v) + ")" for k, v in codes)}]

end Wz.Gen.Response
"""
    return write("Response", body, "src/werkzeug/wrappers/response.py (get_wsgi_headers / get_app_iter evaluated), src/werkzeug/http.py")
