"""C03/C04/C12: the lazy re-sort protocol of werkzeug.routing.Map, read off the AST of map.py.

`Map.update` (double-checked locking around the weight sort of the state machine and the
build-order sort of the per-endpoint rule lists) and `Map.add` are translated statement by
statement into the op alphabet of `Model/RoutingLock.lean`. A statement the translator does not
recognise becomes `.other "<source>"`: the generated file still compiles, the discipline
obligations (`UpdateOK` / `AddOK`, closed by `decide`) then fail.

Also emitted: for every function of map.py that reads `_matcher` / `_rules_by_endpoint`, whether a
call of `update()` lexically precedes the first read (the entry points `MapAdapter.match`,
`MapAdapter.build`, `Map.iter_rules`, `Map.is_endpoint_expecting` must have one).
"""
import ast
import os

from extract_lib import REPO, generator, lean_bool, lean_list, lean_str, write


def _is_self_attr(e, attr, owner="self"):
    return isinstance(e, ast.Attribute) and e.attr == attr and isinstance(e.value, ast.Name) and e.value.id == owner


def _unparse(n):
    return " ".join(ast.unparse(n).split())


def _other(n):
    return f".other {lean_str(_unparse(n)[:120])}"


def _is_docstring(s):
    return isinstance(s, ast.Expr) and isinstance(s.value, ast.Constant) and isinstance(s.value.value, str)


def _ret_if_clean(s):
    """`if not self._remap: return`"""
    return (
        isinstance(s, ast.If)
        and not s.orelse
        and isinstance(s.test, ast.UnaryOp)
        and isinstance(s.test.op, ast.Not)
        and _is_self_attr(s.test.operand, "_remap")
        and len(s.body) == 1
        and isinstance(s.body[0], ast.Return)
        and s.body[0].value is None
    )


def _set_remap(s):
    """`self._remap = True|False` -> bool, else None"""
    if isinstance(s, ast.Assign) and len(s.targets) == 1 and _is_self_attr(s.targets[0], "_remap") and isinstance(s.value, ast.Constant) and isinstance(s.value.value, bool):
        return s.value.value
    return None


def _call_on_self_attr(s, attr, meth, nargs):
    """`self.<attr>.<meth>(<nargs positional>)` as an expression statement -> the call, else None"""
    if isinstance(s, ast.Expr) and isinstance(s.value, ast.Call):
        c = s.value
        if isinstance(c.func, ast.Attribute) and c.func.attr == meth and _is_self_attr(c.func.value, attr) and len(c.args) == nargs and not c.keywords:
            return c
    return None


def _sort_endpoints(s):
    """`for rules in self._rules_by_endpoint.values(): rules.sort(key=lambda x: x.build_compare_key())`"""
    if not (isinstance(s, ast.For) and not s.orelse and isinstance(s.target, ast.Name) and len(s.body) == 1):
        return False
    it = s.iter
    if not (isinstance(it, ast.Call) and isinstance(it.func, ast.Attribute) and it.func.attr == "values" and _is_self_attr(it.func.value, "_rules_by_endpoint") and not it.args and not it.keywords):
        return False
    b = s.body[0]
    if not (isinstance(b, ast.Expr) and isinstance(b.value, ast.Call)):
        return False
    c = b.value
    if not (isinstance(c.func, ast.Attribute) and c.func.attr == "sort" and isinstance(c.func.value, ast.Name) and c.func.value.id == s.target.id and not c.args and len(c.keywords) == 1 and c.keywords[0].arg == "key"):
        return False
    k = c.keywords[0].value
    # key = lambda x: x.build_compare_key()
    return (
        isinstance(k, ast.Lambda)
        and len(k.args.args) == 1
        and isinstance(k.body, ast.Call)
        and isinstance(k.body.func, ast.Attribute)
        and k.body.func.attr == "build_compare_key"
        and isinstance(k.body.func.value, ast.Name)
        and k.body.func.value.id == k.args.args[0].arg
        and not k.body.args
    )


def translate_update(fn):
    ops = []

    def block(stmts, locked):
        for s in stmts:
            if _is_docstring(s):
                continue
            if _ret_if_clean(s):
                ops.append(".retIfClean")
            elif isinstance(s, ast.With) and len(s.items) == 1 and s.items[0].optional_vars is None and _is_self_attr(s.items[0].context_expr, "_remap_lock") and not locked:
                ops.append(".acquire")
                block(s.body, True)
                ops.append(".release")
            elif _set_remap(s) is not None:
                ops.append(f".setRemap {lean_bool(_set_remap(s))}")
            elif _call_on_self_attr(s, "_matcher", "update", 0) is not None:
                ops.append(".sortMatcher")
            elif _sort_endpoints(s):
                ops.append(".sortEndpoints")
            else:
                ops.append(_other(s))

    block(fn.body, False)
    return ops


def translate_add(fn):
    """-> (ops of the `for rule in rulefactory.get_rules(self)` body, ops after the loop); anything in
    front of the loop is reported as `.other` in the body"""
    body, after = [], []
    stmts = [s for s in fn.body if not _is_docstring(s)]
    loop = None
    for i, s in enumerate(stmts):
        if isinstance(s, ast.For) and not s.orelse and isinstance(s.target, ast.Name):
            it = s.iter
            if isinstance(it, ast.Call) and isinstance(it.func, ast.Attribute) and it.func.attr == "get_rules" and len(it.args) == 1 and isinstance(it.args[0], ast.Name) and it.args[0].id == "self":
                loop = (i, s)
                break
    if loop is None:
        return [_other(s) for s in stmts], []
    i, s = loop
    var = s.target.id
    for pre in stmts[:i]:
        body.append(_other(pre))
    for b in s.body:
        # rule.bind(self)
        if isinstance(b, ast.Expr) and isinstance(b.value, ast.Call) and isinstance(b.value.func, ast.Attribute) and b.value.func.attr == "bind" and isinstance(b.value.func.value, ast.Name) and b.value.func.value.id == var:
            body.append(".bindRule")
            continue
        # if not rule.build_only: self._matcher.add(rule)
        if (
            isinstance(b, ast.If)
            and not b.orelse
            and isinstance(b.test, ast.UnaryOp)
            and isinstance(b.test.op, ast.Not)
            and _is_self_attr(b.test.operand, "build_only", var)
            and len(b.body) == 1
            and (c := _call_on_self_attr(b.body[0], "_matcher", "add", 1)) is not None
            and isinstance(c.args[0], ast.Name)
            and c.args[0].id == var
        ):
            body.append(".matcherAdd 0")
            continue
        # self._rules_by_endpoint.setdefault(rule.endpoint, []).append(rule)
        if isinstance(b, ast.Expr) and isinstance(b.value, ast.Call):
            c = b.value
            if (
                isinstance(c.func, ast.Attribute)
                and c.func.attr == "append"
                and len(c.args) == 1
                and isinstance(c.args[0], ast.Name)
                and c.args[0].id == var
                and isinstance(c.func.value, ast.Call)
                and isinstance(c.func.value.func, ast.Attribute)
                and c.func.value.func.attr == "setdefault"
                and _is_self_attr(c.func.value.func.value, "_rules_by_endpoint")
            ):
                body.append(".endpointAdd 0")
                continue
        body.append(_other(b))
    for post in stmts[i + 1 :]:
        v = _set_remap(post)
        after.append(f".setRemap {lean_bool(v)}" if v is not None else _other(post))
    return body, after


STRUCTS = ("_matcher", "_rules_by_endpoint")


def reader_table(tree):
    """functions of map.py that can reach a read of `_matcher` / `_rules_by_endpoint` without having
    called `update()` first: direct reads not preceded (lexically) by an `update()` call, closed under
    "calls such a function (or reads such a property) before its own `update()` call".
    -> (guarded readers, unguarded functions), both as sorted lists of 'Class.function'"""
    fns = {}
    for cls in [n for n in tree.body if isinstance(n, ast.ClassDef)]:
        for fn in [n for n in cls.body if isinstance(n, ast.FunctionDef)]:
            if fn.name in ("__init__", "add", "update", "merge_slashes"):
                continue
            reads, updates, uses = [], [], []
            for n in ast.walk(fn):
                pos = (getattr(n, "lineno", 0), getattr(n, "col_offset", 0))
                if isinstance(n, ast.Attribute) and n.attr in STRUCTS and isinstance(n.ctx, ast.Load):
                    reads.append(pos)
                elif isinstance(n, ast.Call) and isinstance(n.func, ast.Attribute) and n.func.attr == "update" and not n.args and not n.keywords and (
                    (isinstance(n.func.value, ast.Name) and n.func.value.id == "self") or _is_self_attr(n.func.value, "map")
                ):
                    updates.append(pos)
                elif isinstance(n, ast.Attribute) and isinstance(n.ctx, ast.Load) and (
                    (isinstance(n.value, ast.Name) and n.value.id == "self") or _is_self_attr(n.value, "map")
                ):
                    uses.append((pos, n.attr))
            fns.setdefault(fn.name, []).append((cls.name, fn.name, reads, updates, uses))
    unguarded = set()
    direct = set()
    changed = True
    while changed:
        changed = False
        for name, variants in fns.items():
            for cname, fname, reads, updates, uses in variants:
                q = f"{cname}.{fname}"
                first_upd = min(updates) if updates else (10**9, 0)
                if reads:
                    direct.add(q)
                bad = any(r < first_upd for r in reads) or any(pos < first_upd and any(f"{c2}.{attr}" in unguarded for c2, *_ in fns.get(attr, [])) and attr != fname for pos, attr in uses)
                if bad and q not in unguarded:
                    unguarded.add(q)
                    changed = True
    guarded = set()
    for name, variants in fns.items():
        for cname, fname, reads, updates, uses in variants:
            q = f"{cname}.{fname}"
            if q in unguarded or not updates:
                continue
            if reads or any(any(f"{c2}.{attr}" in unguarded for c2, *_ in fns.get(attr, [])) for _, attr in uses):
                guarded.add(q)
    return sorted(guarded), sorted(unguarded)


@generator("RoutingLock")
def gen_routing_lock():
    path = os.path.join(REPO, "src", "werkzeug", "routing", "map.py")
    tree = ast.parse(open(path).read())
    cls = next(n for n in tree.body if isinstance(n, ast.ClassDef) and n.name == "Map")
    fns = {n.name: n for n in cls.body if isinstance(n, ast.FunctionDef)}
    upd = translate_update(fns["update"]) if "update" in fns else ['.other "Map.update is missing"']
    body, after = translate_add(fns["add"]) if "add" in fns else (['.other "Map.add is missing"'], [])
    # the flag and the lock are created by __init__: `self._remap = True`, `self._remap_lock = self.lock_class()`
    init_remap = None
    init_lock = False
    for n in ast.walk(fns["__init__"]):
        v = _set_remap(n) if isinstance(n, ast.Assign) else None
        if v is not None:
            init_remap = v
        if isinstance(n, ast.Assign) and len(n.targets) == 1 and _is_self_attr(n.targets[0], "_remap_lock"):
            init_lock = True
    remap_writers = []
    for c in [n for n in tree.body if isinstance(n, ast.ClassDef)]:
        for fn in [n for n in c.body if isinstance(n, ast.FunctionDef)]:
            for n in ast.walk(fn):
                if isinstance(n, (ast.Assign, ast.AugAssign, ast.AnnAssign)):
                    tgts = n.targets if isinstance(n, ast.Assign) else [n.target]
                    if any(isinstance(t, ast.Attribute) and t.attr == "_remap" for t in tgts):
                        remap_writers.append(f"{c.name}.{fn.name}")
    guarded, unguarded = reader_table(tree)
    body_txt = f"""import WzVerif.Model.RoutingLock
namespace Wz.Gen.RoutingLock
open Wz.RoutingLock

/-- `Map.update`, statement by statement (`with self._remap_lock:` = acquire … release) -/
def updateProg : List Op := {lean_list(upd, 1)}

/-- body of `for rule in rulefactory.get_rules(self):` in `Map.add` (rule id 0 = the loop variable) -/
def addBody : List Op := {lean_list(body, 1)}

/-- statements of `Map.add` after the loop -/
def addAfter : List Op := {lean_list(after, 1)}

/-- `Map.__init__` sets `self._remap` to this value (`none`: no such assignment) and creates the lock -/
def initRemap : Option Bool := {"none" if init_remap is None else "some " + lean_bool(init_remap)}
def initCreatesLock : Bool := {lean_bool(init_lock)}

/-- every function of map.py that assigns `_remap` -/
def remapWriters : List String := {lean_list([lean_str(x) for x in sorted(set(remap_writers))], 4)}

/-- functions of map.py that reach a read of `_matcher` / `_rules_by_endpoint` (directly or through
one of the `unguardedReaders`) only after their own call of `update()` -/
def guardedReaders : List String := {lean_list([lean_str(x) for x in guarded], 4)}

/-- functions of map.py (other than `__init__`, `add`, `update`, the `merge_slashes` property) that can
reach such a read without having called `update()` themselves -/
def unguardedReaders : List String := {lean_list([lean_str(x) for x in unguarded], 4)}

end Wz.Gen.RoutingLock
"""
    return write("RoutingLock", body_txt, "src/werkzeug/routing/map.py (AST of Map.update / Map.add / readers of the sorted structures)")
