"""C06/C07: character classes, literal sets and typed-property tables consulted by the header codecs,
evaluated from the live module objects (or collected from the AST where the literal is local)."""
import ast
import importlib
import inspect
import os
import re

from extract_lib import REPO, generator, lean_bool, lean_list, lean_str, write


def _cls(rx, build, n=256):
    """which single characters does the live regex accept in the position `build` puts them"""
    return [bool(rx.fullmatch(build(chr(c)))) for c in range(n)]


def _high(rx, build):
    return any(rx.fullmatch(build(chr(c))) for c in range(256, 0x3000)) or any(
        rx.fullmatch(build(chr(c))) for c in (0xFF10, 0xFF21, 0x1D7CE, 0x0660, 0x10FFFF, 0x2028, 0x3000)
    )


def _set_literals(func_src_node):
    """all set displays of string constants inside a function, in source order"""
    out = []
    for node in ast.walk(func_src_node):
        if isinstance(node, ast.Set) and all(isinstance(e, ast.Constant) and isinstance(e.value, str) for e in node.elts):
            out.append([e.value for e in node.elts])
    return out


def _func_node(path, qual):
    tree = ast.parse(open(path).read())
    parts = qual.split(".")
    nodes = tree.body
    node = None
    for p in parts:
        node = next(n for n in nodes if isinstance(n, (ast.FunctionDef, ast.ClassDef)) and n.name == p)
        nodes = node.body
    return node


def bools(bs):
    return lean_list([lean_bool(b) for b in bs])


def strs(ss, per_line=6):
    return lean_list([lean_str(s) for s in ss], per_line)


@generator("Http")
def gen_http():
    http = importlib.import_module("werkzeug.http")
    internal = importlib.import_module("werkzeug._internal")
    ds = importlib.import_module("werkzeug.datastructures")
    cc_mod = importlib.import_module("werkzeug.datastructures.cache_control")
    csp_mod = importlib.import_module("werkzeug.datastructures.csp")
    import datetime as _dt

    tok = [chr(c) in http._token_chars for c in range(256)]
    tok_high = any(ord(ch) >= 256 for ch in http._token_chars)
    tok_multi = any(len(ch) != 1 for ch in http._token_chars)

    pk, ptv, csv, cont, pint, qv = (
        http._parameter_key_re,
        http._parameter_token_value_re,
        http._charset_value_re,
        http._continuation_re,
        internal._plain_int_re,
        http._q_value_re,
    )
    key_cls = _cls(pk, lambda ch: ch + "=")
    key_high = _high(pk, lambda ch: ch + "=")
    tv_cls = _cls(ptv, lambda ch: ch)
    tv_high = _high(ptv, lambda ch: ch)
    def grp(build, want):
        def ok(ch):
            m = csv.fullmatch(build(ch))
            return bool(m) and m.groups() == want(ch)

        return ok

    g1 = grp(lambda ch: ch + "''x", lambda ch: (ch, "x"))
    g2 = grp(lambda ch: "'" + ch + "'x", lambda ch: ("", "x"))
    g3 = grp(lambda ch: "''" + ch, lambda ch: ("", ch))
    cs1 = [g1(chr(c)) for c in range(256)]
    cs2 = [g2(chr(c)) for c in range(256)]
    cs3 = [g3(chr(c)) for c in range(256)]
    cs_high = any(g(chr(c)) for g in (g1, g2, g3) for c in list(range(256, 0x3000)) + [0xFF10, 0xFF21, 0x1D7CE, 0x0660, 0x10FFFF])
    cont_d = _cls(cont, lambda ch: "*" + ch)
    cont_high = _high(cont, lambda ch: "*" + ch)
    pint_d = _cls(pint, lambda ch: ch)
    pint_high = _high(pint, lambda ch: ch)
    q_d = _cls(qv, lambda ch: ch)
    q_high = _high(qv, lambda ch: ch)

    http_path = os.path.join(REPO, "src", "werkzeug", "http.py")
    auth_path = os.path.join(REPO, "src", "werkzeug", "datastructures", "auth.py")
    enc_opt = [s for s in _set_literals(_func_node(http_path, "parse_options_header")) if "utf-8" in s]
    enc_dict = [s for s in _set_literals(_func_node(http_path, "parse_dict_header")) if "utf-8" in s]
    esc_opt = [s for s in _set_literals(_func_node(http_path, "parse_options_header")) if "utf-8" not in s]
    digest_q = _set_literals(_func_node(auth_path, "WWWAuthenticate.to_header"))

    def cc_table(cls):
        rows = []
        for name in sorted(dir(cls)):
            p = inspect.getattr_static(cls, name)
            if isinstance(p, property) and p.fget is not None and p.fget.__closure__:
                cells = {n: c.cell_contents for n, c in zip(p.fget.__code__.co_freevars, p.fget.__closure__)}
                if "key" in cells and "type" in cells:
                    ty = cells["type"]
                    tyn = "none" if ty is None else ty.__name__
                    emp = cells["empty"]
                    empn = "none" if emp is None else ("true" if emp is True else "other:" + repr(emp))
                    rows.append((name, cells["key"], empn, tyn))
        return rows

    def cc_lean(rows):
        return lean_list(["(" + ", ".join(lean_str(x) for x in r) + ")" for r in rows], 2)

    csp_keys = []
    for name in sorted(dir(csp_mod.ContentSecurityPolicy)):
        p = inspect.getattr_static(csp_mod.ContentSecurityPolicy, name)
        if isinstance(p, property) and p.fget is not None and p.fget.__closure__:
            cells = {n: c.cell_contents for n, c in zip(p.fget.__code__.co_freevars, p.fget.__closure__)}
            if "key" in cells:
                csp_keys.append(cells["key"])

    lower = [ord(chr(c).lower()) if len(chr(c).lower()) == 1 else 0x110000 for c in range(256)]
    upper1 = [ord(chr(c).upper()) if len(chr(c).upper()) == 1 else 0x110000 for c in range(256)]
    cased = [chr(c).lower() != chr(c) or chr(c).upper() != chr(c) or chr(c) in "ªº" for c in range(256)]
    # str.title() on one two-character probe per code point: is chr(c) treated as cased (the next
    # letter gets lower-cased after it)?
    title_cased = [("%sA" % chr(c)).title()[-1] == "a" for c in range(256)]
    title_first = [[ord(x) for x in chr(c).title()] for c in range(256)]
    decimal = [chr(c).isdecimal() for c in range(256)]
    # every Unicode decimal digit (what int() / float() accept): runs of ten starting at a DIGIT ZERO
    import unicodedata as _ud

    nd = [c for c in range(0x110000) if chr(c).isdecimal()]
    zeros, covered = [], set()
    for c in nd:
        if _ud.decimal(chr(c)) == 0 and all(chr(c + i).isdecimal() and _ud.decimal(chr(c + i)) == i for i in range(10)):
            zeros.append(c)
            covered.update(range(c, c + 10))
    stray = [(c, _ud.decimal(chr(c))) for c in nd if c not in covered]
    # int() itself on one probe per run (the table is about int(), not about unicodedata)
    int_ok = all(int(chr(z + 7) + "_" + chr(z)) == 70 for z in zeros)

    # names the live http_date writes (email.utils tables), observed through the public function
    days = []
    base = _dt.datetime(2024, 1, 1, tzinfo=_dt.timezone.utc)  # a Monday
    for i in range(7):
        days.append(http.http_date(base + _dt.timedelta(days=i))[:3])
    months = []
    for m in range(1, 13):
        months.append(http.http_date(_dt.datetime(2024, m, 1, tzinfo=_dt.timezone.utc))[8:11])
    sample = http.http_date(_dt.datetime(2024, 2, 3, 4, 5, 6, tzinfo=_dt.timezone.utc))
    td_max = _dt.timedelta.max
    td_max_s = td_max.days * 86400 + td_max.seconds

    body = f"""namespace Wz.Gen.Http

/-- `chr(c) in http._token_chars` for c = 0..255 -/
def tokenTbl : List Bool := {bools(tok)}
/-- does `_token_chars` contain a code point above U+00FF? -/
def tokenHigh : Bool := {lean_bool(tok_high)}
/-- does `_token_chars` contain an element that is not a single character? -/
def tokenMulti : Bool := {lean_bool(tok_multi)}

/-- character class of `_parameter_key_re` (the `+` group before `=`), c = 0..255 -/
def paramKeyCls : List Bool := {bools(key_cls)}
def paramKeyHigh : Bool := {lean_bool(key_high)}
/-- character class of `_parameter_token_value_re` -/
def paramTokCls : List Bool := {bools(tv_cls)}
def paramTokHigh : Bool := {lean_bool(tv_high)}
/-- the three classes of `_charset_value_re`: charset part, language part, value part -/
def charsetCls : List Bool := {bools(cs1)}
def charsetLangCls : List Bool := {bools(cs2)}
def charsetValCls : List Bool := {bools(cs3)}
def charsetHigh : Bool := {lean_bool(cs_high)}
/-- `\\d` of `_continuation_re`, `_plain_int_re`, `_q_value_re` (all re.ASCII) -/
def contDigit : List Bool := {bools(cont_d)}
def contHigh : Bool := {lean_bool(cont_high)}
def plainIntDigit : List Bool := {bools(pint_d)}
def plainIntHigh : Bool := {lean_bool(pint_high)}
def qDigit : List Bool := {bools(q_d)}
def qHigh : Bool := {lean_bool(q_high)}

/-- regex sources whose *shape* is hand-modelled (a change here breaks the pin theorems in Props) -/
def parameterKeyRe : String := {lean_str(pk.pattern)}
def parameterTokenValueRe : String := {lean_str(ptv.pattern)}
def charsetValueRe : String := {lean_str("".join(ln.split("  #")[0].strip() for ln in csv.pattern.split(chr(10))))}
def continuationRe : String := {lean_str(cont.pattern)}
def plainIntRe : String := {lean_str(pint.pattern)}
def qValueRe : String := {lean_str(qv.pattern)}
def etagRe : String := {lean_str(http._etag_re.pattern)}
def etagReFlags : Nat := {http._etag_re.flags}

/-- the accepted RFC 2231 charsets: set literal in `parse_options_header` / `parse_dict_header` -/
def safeEncodingsOptions : List (List String) := {lean_list([strs(sorted(s)) for s in enc_opt], 1)}
def safeEncodingsDict : List (List String) := {lean_list([strs(sorted(s)) for s in enc_dict], 1)}
/-- the two-character escapes the quoted-string scanner of `parse_options_header` skips -/
def optionEscapes : List (List String) := {lean_list([strs(sorted(s)) for s in esc_opt], 1)}
/-- keys always quoted by `WWWAuthenticate.to_header` for digest -/
def digestQuoted : List (List String) := {lean_list([strs(sorted(s)) for s in digest_q], 1)}

/-- typed cache-control properties: (attribute, directive key, value when present without a value, type) -/
def requestCacheControl : List (String × String × String × String) := {cc_lean(cc_table(ds.RequestCacheControl))}
def responseCacheControl : List (String × String × String × String) := {cc_lean(cc_table(ds.ResponseCacheControl))}
/-- directive keys of the typed CSP properties -/
def cspKeys : List String := {strs(csp_keys)}

/-- `ord(chr(c).lower())`, `ord(chr(c).upper())` for c = 0..255 (0x110000 = result is not one character) -/
def lowerTbl : List Nat := {lean_list([str(x) for x in lower])}
def upperTbl : List Nat := {lean_list([str(x) for x in upper1])}
/-- is chr(c) a cased character for `str.title()` (the following letter is lower-cased)? -/
def titleCased : List Bool := {bools(title_cased)}
/-- code points of `chr(c).title()` -/
def titleTbl : List (List Nat) := {lean_list(["[" + ", ".join(str(x) for x in r) + "]" for r in title_first])}
/-- `chr(c).isdecimal()` (digits accepted by `int()`) -/
def decimalTbl : List Bool := {bools(decimal)}
/-- code points of every DIGIT ZERO `z` such that `z .. z+9` are the decimal digits 0..9
(`str.isdecimal`, `unicodedata.decimal`); together they are all {len(nd)} decimal digits of this CPython -/
def decimalZeros : List Nat := {lean_list([str(z) for z in zeros])}
/-- decimal digits outside those runs: (code point, value) -/
def decimalStray : List (Nat × Nat) := {lean_list(["(%d, %d)" % x for x in stray])}
/-- `int(chr(z+7) + "_" + chr(z)) == 70` for every run (probe of the live `int`) -/
def decimalIntProbe : Bool := {lean_bool(int_ok)}

/-- day and month names written by the live `http_date` (Monday first) -/
def dayNames : List String := {strs(days, 7)}
def monthNames : List String := {strs(months, 12)}
/-- `http_date(datetime(2024, 2, 3, 4, 5, 6, tzinfo=utc))` (pins the field layout) -/
def dateSample : String := {lean_str(sample)}
/-- `timedelta.max` in whole seconds (bound of `parse_age`) -/
def timedeltaMaxSeconds : Nat := {td_max_s}

end Wz.Gen.Http
"""
    return write("Http", body, "src/werkzeug/http.py, _internal.py, datastructures/{auth,cache_control,csp}.py")
