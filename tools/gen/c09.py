"""C09: wsgi.get_input_stream's wrapper choice, evaluated exhaustively on the live function."""
import importlib
import io

from extract_lib import generator, lean_bool, lean_list, write

# CONTENT_LENGTH: absent / valid / negative / garbage / non-ASCII digits (+ spellings int() accepts)
CL = [None, "0", "5", " 5 ", "-3", "-0", "abc", "", "+5", "1_0", "５", "٥", "5x"]
TE = [None, "chunked"]
TERM = [False, True]  # is the key "wsgi.input_terminated" present
MAX = [None, 0, 4, 5, 6]  # relative to the valid length 5: none, <, =, >
SAFE = [True, False]


def lean_chars(s):
    if s is None:
        return "none"
    return "(some [" + ", ".join(f"Char.ofNat {ord(c)}" for c in s) + "])"


def lean_opt_nat(n):
    return "none" if n is None else f"(some {n})"


@generator("InputStream")
def gen_input_stream():
    wsgi = importlib.import_module("werkzeug.wsgi")
    exc = importlib.import_module("werkzeug.exceptions")
    rows = []
    for cl in CL:
        for te in TE:
            for term in TERM:
                for mx in MAX:
                    for safe in SAFE:
                        raw = io.BytesIO(b"0123456789")
                        env = {"wsgi.input": raw}
                        if cl is not None:
                            env["CONTENT_LENGTH"] = cl
                        if te is not None:
                            env["HTTP_TRANSFER_ENCODING"] = te
                        if term:
                            env["wsgi.input_terminated"] = True
                        try:
                            st = wsgi.get_input_stream(env, safe_fallback=safe, max_content_length=mx)
                        except exc.RequestEntityTooLarge:
                            res = ".tooLarge"
                        else:
                            if st is raw:
                                res = ".raw"
                            elif isinstance(st, wsgi.LimitedStream) and st._stream is raw:
                                res = f".limited {int(st.limit)} {lean_bool(bool(st._limit_is_max))}"
                            elif isinstance(st, io.BytesIO) and st.getvalue() == b"":
                                res = ".empty"
                            else:
                                raise RuntimeError(f"unclassifiable result {st!r}")
                        rows.append(f"⟨{lean_chars(cl)}, {lean_bool(te == 'chunked')}, {lean_bool(term)}, {lean_opt_nat(mx)}, {lean_bool(safe)}, {res}⟩")
    body = f"""import WzVerif.Model.LimitedStream
namespace Wz.Gen.InputStream
open Wz.LS

/-- one evaluation of the real `get_input_stream`: CONTENT_LENGTH text, Transfer-Encoding is
`chunked`, `wsgi.input_terminated` present, max_content_length, safe_fallback, observed result -/
structure Row where
  cl : Option (List Char)
  chunked : Bool
  terminated : Bool
  max : Option Nat
  safe : Bool
  result : Choice

/-- {len(rows)} rows: the complete product of the domains listed in tools/gen/c09.py -/
def table : List Row := {lean_list(rows, 1)}

end Wz.Gen.InputStream
"""
    return write("InputStream", body, "src/werkzeug/wsgi.py (get_input_stream), src/werkzeug/sansio/utils.py (get_content_length)")
