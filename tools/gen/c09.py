"""C09: wsgi.get_input_stream's wrapper choice, evaluated exhaustively on the live function."""
import importlib
import io

from extract_lib import generator, lean_bool, lean_list, lean_str, write

# CONTENT_LENGTH: absent / valid / negative / garbage / non-ASCII digits (+ spellings int() accepts)
CL = [None, "0", "5", " 5 ", "-3", "-0", "abc", "", "+5", "1_0", "５", "٥", "5x", "5,5", "5, 7", "5;q=1", "x5"]
TE = [None, "chunked"]
TERM = [False, True]  # is the key "wsgi.input_terminated" present
MAX = [None, 0, 4, 5, 6]  # relative to the valid length 5: none, <, =, >
SAFE = [True, False]


def lean_chars(s):
    if s is None:
        return "none"
    return "(some [" + ", ".join(f"Char.ofNat {ord(c)}" for c in s) + "])"


def lean_opt_nat(n):
    return "none" if n is None else f"(some {n})"


@generator("InputStream")
def gen_input_stream():
    wsgi = importlib.import_module("werkzeug.wsgi")
    exc = importlib.import_module("werkzeug.exceptions")
    rows = []
    for cl in CL:
        for te in TE:
            for term in TERM:
                for mx in MAX:
                    for safe in SAFE:
                        raw = io.BytesIO(b"0123456789")
                        env = {"wsgi.input": raw}
                        if cl is not None:
                            env["CONTENT_LENGTH"] = cl
                        if te is not None:
                            env["HTTP_TRANSFER_ENCODING"] = te
                        if term:
                            env["wsgi.input_terminated"] = True
                        try:
                            st = wsgi.get_input_stream(env, safe_fallback=safe, max_content_length=mx)
                        except exc.RequestEntityTooLarge:
                            res = ".tooLarge"
                        else:
                            if st is raw:
                                res = ".raw"
                            elif isinstance(st, wsgi.LimitedStream) and st._stream is raw:
                                res = f".limited {int(st.limit)} {lean_bool(bool(st._limit_is_max))}"
                            elif isinstance(st, io.BytesIO) and st.getvalue() == b"":
                                res = ".empty"
                            else:
                                raise RuntimeError(f"unclassifiable result {st!r}")
                        rows.append(f"⟨{lean_chars(cl)}, {lean_bool(te == 'chunked')}, {lean_bool(term)}, {lean_opt_nat(mx)}, {lean_bool(safe)}, {res}⟩")
    body = f"""import WzVerif.Model.LimitedStream
namespace Wz.Gen.InputStream
open Wz.LS

/-- one evaluation of the real `get_input_stream`: CONTENT_LENGTH text, Transfer-Encoding is
`chunked`, `wsgi.input_terminated` present, max_content_length, safe_fallback, observed result -/
structure Row where
  cl : Option (List Char)
  chunked : Bool
  terminated : Bool
  max : Option Nat
  safe : Bool
  result : Choice

/-- {len(rows)} rows: the complete product of the domains listed in tools/gen/c09.py -/
def table : List Row := {lean_list(rows, 1)}

end Wz.Gen.InputStream
"""
    return write("InputStream", body, "src/werkzeug/wsgi.py (get_input_stream), src/werkzeug/sansio/utils.py (get_content_length)")


# --------------------------------------------------------------------------
# structural facts (AST, no execution) about LimitedStream and the Request glue around the body stream


def _src(path):
    import os

    from extract_lib import REPO

    with open(os.path.join(REPO, "src", "werkzeug", *path.split("/"))) as f:
        return f.read()


def _cls(tree, name):
    import ast

    return next(n for n in tree.body if isinstance(n, ast.ClassDef) and n.name == name)


def _fn(cls, name):
    import ast

    defs = [n for n in cls.body if isinstance(n, ast.FunctionDef) and n.name == name
            and not any(ast.unparse(d).endswith("overload") for d in n.decorator_list)]
    return defs[-1] if defs else None


def _u(node):
    import ast

    return ast.unparse(node)


def stream_facts():
    """facts the hand model of LimitedStream / the Request glue transcribes; an unknown shape gives
    False / 0 / [] and breaks the obligation"""
    import ast

    f = {"readallChunk": 0, "readintoHandlers": 0, "readintoCatches": [], "exhaustedIsGe": False, "exhaustedRaisesIffMax": False,
         "disconnectRaisesUnlessCleanMax": False, "exhaustReadsUnlessExhausted": False, "tellIsPos": False,
         "streamIsGuardedInput": False, "getDataReadsStreamOnce": False, "getDataCachesUnderFlag": False,
         "getDataParsesUnderFlag": False, "parsingUsesCachedCopy": False, "closeTouchesOnlyFiles": False,
         "loadFormStoresParserStream": False, "posWrites": 0}
    L = _cls(ast.parse(_src("wsgi.py")), "LimitedStream")
    ra = _fn(L, "readall")
    if ra is not None:
        reads = [n for n in ast.walk(ra) if isinstance(n, ast.Call) and _u(n.func) == "self.read"]
        if len(reads) == 1 and len(reads[0].args) == 1 and not reads[0].keywords:
            try:
                v = eval(compile(ast.Expression(reads[0].args[0]), "<c09>", "eval"), {"__builtins__": {}})  # constant arithmetic: 1024 * 64
            except Exception:
                v = 0
            f["readallChunk"] = int(v) if isinstance(v, int) and not isinstance(v, bool) else 0
    ri = _fn(L, "readinto")
    if ri is not None:
        hs = [h for n in ast.walk(ri) if isinstance(n, ast.Try) for h in n.handlers]
        f["readintoHandlers"] = len(hs)
        names = set()
        for h in hs:
            t = h.type
            names.add(tuple(sorted(_u(e) for e in t.elts)) if isinstance(t, ast.Tuple) else ((_u(t),) if t is not None else ("<bare>",)))
        f["readintoCatches"] = list(next(iter(names))) if len(names) == 1 else []
        f["posWrites"] = len([n for n in ast.walk(L) if isinstance(n, (ast.Assign, ast.AugAssign))
                              and any(_u(t) == "self._pos" for t in (n.targets if isinstance(n, ast.Assign) else [n.target]))])
    ie = _fn(L, "is_exhausted")
    if ie is not None and len(ie.body) >= 1 and isinstance(ie.body[-1], ast.Return):
        f["exhaustedIsGe"] = _u(ie.body[-1].value) == "self._pos >= self.limit"
    oe = _fn(L, "on_exhausted")
    if oe is not None:
        body = [s for s in oe.body if not (isinstance(s, ast.Expr) and isinstance(s.value, ast.Constant))]
        f["exhaustedRaisesIffMax"] = (len(body) == 1 and isinstance(body[0], ast.If) and _u(body[0].test) == "self._limit_is_max" and not body[0].orelse
                                      and len(body[0].body) == 1 and _u(body[0].body[0]) == "raise RequestEntityTooLarge()")
    od = _fn(L, "on_disconnect")
    if od is not None:
        body = [s for s in od.body if not (isinstance(s, ast.Expr) and isinstance(s.value, ast.Constant))]
        f["disconnectRaisesUnlessCleanMax"] = (len(body) == 1 and isinstance(body[0], ast.If) and _u(body[0].test) == "not self._limit_is_max or error is not None"
                                               and not body[0].orelse and len(body[0].body) == 1 and _u(body[0].body[0]) == "raise ClientDisconnected()")
    ex = _fn(L, "exhaust")
    if ex is not None:
        body = [s for s in ex.body if not (isinstance(s, ast.Expr) and isinstance(s.value, ast.Constant))]
        f["exhaustReadsUnlessExhausted"] = (len(body) == 2 and isinstance(body[0], ast.If) and _u(body[0].test) == "not self.is_exhausted"
                                            and _u(body[0].body[0]) == "return self.readall()" and _u(body[1]) == "return b''")
    tl = _fn(L, "tell")
    if tl is not None and isinstance(tl.body[-1], ast.Return):
        f["tellIsPos"] = _u(tl.body[-1].value) == "self._pos"

    R = _cls(ast.parse(_src("wrappers/request.py")), "Request")
    st = _fn(R, "stream")
    if st is not None:
        rets = [n for n in ast.walk(st) if isinstance(n, ast.Return)]
        f["streamIsGuardedInput"] = (len(rets) == 1 and _u(rets[0].value).replace(" ", "").replace("\n", "")
                                     == "get_input_stream(self.environ,max_content_length=self.max_content_length)")
    gd = _fn(R, "get_data")
    if gd is not None:
        reads = [n for n in ast.walk(gd) if isinstance(n, ast.Call) and isinstance(n.func, ast.Attribute) and n.func.attr == "read"]
        outer = [s for s in gd.body if isinstance(s, ast.If) and _u(s.test) == "rv is None"]
        first = next((s for s in gd.body if isinstance(s, ast.Assign)), None)
        ok_first = first is not None and _u(first) == "rv = getattr(self, '_cached_data', None)"
        if ok_first and len(outer) == 1 and len(reads) == 1 and _u(reads[0]) == "self.stream.read()":
            inner = outer[0].body
            f["getDataReadsStreamOnce"] = any(_u(s) == "rv = self.stream.read()" for s in inner)
            caches = [n for n in ast.walk(gd) if isinstance(n, ast.Assign) and any(_u(t) == "self._cached_data" for t in n.targets)]
            flag = [s for s in inner if isinstance(s, ast.If) and _u(s.test) == "cache"]
            f["getDataCachesUnderFlag"] = (len(caches) == 1 and len(flag) == 1 and not flag[0].orelse and len(flag[0].body) == 1
                                           and _u(flag[0].body[0]) == "self._cached_data = rv")
            pf = [s for s in inner if isinstance(s, ast.If) and _u(s.test) == "parse_form_data"]
            loads = [n for n in ast.walk(gd) if isinstance(n, ast.Call) and _u(n.func) == "self._load_form_data"]
            f["getDataParsesUnderFlag"] = (len(pf) == 1 and len(loads) == 1 and not pf[0].orelse and _u(pf[0].body[0]) == "self._load_form_data()"
                                           and inner.index(pf[0]) < next(i for i, s in enumerate(inner) if _u(s) == "rv = self.stream.read()"))
    gp = _fn(R, "_get_stream_for_parsing")
    if gp is not None:
        body = [s for s in gp.body if not (isinstance(s, ast.Expr) and isinstance(s.value, ast.Constant))]
        f["parsingUsesCachedCopy"] = (len(body) == 3 and _u(body[0]) == "cached_data = getattr(self, '_cached_data', None)" and isinstance(body[1], ast.If)
                                      and _u(body[1].test) == "cached_data is not None" and _u(body[1].body[0]) == "return BytesIO(cached_data)"
                                      and not body[1].orelse and _u(body[2]) == "return self.stream")
    cl = _fn(R, "close")
    if cl is not None:
        names = {n.attr for n in ast.walk(cl) if isinstance(n, ast.Attribute)} | {n.value for n in ast.walk(cl) if isinstance(n, ast.Constant) and isinstance(n.value, str) and len(n.value) < 30}
        f["closeTouchesOnlyFiles"] = not ({"stream", "_cached_data", "environ", "input_stream", "get_data", "data", "form"} & names)
    lf = _fn(R, "_load_form_data")
    if lf is not None:
        src = _u(lf)
        f["loadFormStoresParserStream"] = ("d['stream'], d['form'], d['files'] = data" in src and "if 'form' in self.__dict__:\n        return" in src
                                           and "self._get_stream_for_parsing()" in src and "if self.want_form_data_parsed:" in src)
    return f


@generator("InputStreamFacts")
def gen_input_stream_facts():
    f = stream_facts()

    def b(k):
        return lean_bool(bool(f[k]))

    body = f"""namespace Wz.Gen.InputStreamFacts

/-! facts read off the AST of `wsgi.LimitedStream` and of `wrappers.Request` (tools/gen/c09.py, no execution) -/

/-- the argument of the single `self.read(...)` call inside `LimitedStream.readall`'s loop -/
def readallChunk : Nat := {f["readallChunk"]}
/-- number of `try` handlers in `LimitedStream.readinto` (one per path that calls the underlying stream) -/
def readintoHandlers : Nat := {f["readintoHandlers"]}
/-- the exception classes every one of them catches, sorted -/
def readintoCatches : List String := [{", ".join(lean_str(x) for x in f["readintoCatches"])}]
/-- number of statements in the class that assign `self._pos` (`__init__` and the one `+=` in readinto) -/
def posWrites : Nat := {f["posWrites"]}
/-- `is_exhausted` returns `self._pos >= self.limit` -/
def exhaustedIsGe : Bool := {b("exhaustedIsGe")}
/-- `on_exhausted` is `if self._limit_is_max: raise RequestEntityTooLarge()` -/
def exhaustedRaisesIffMax : Bool := {b("exhaustedRaisesIffMax")}
/-- `on_disconnect` is `if not self._limit_is_max or error is not None: raise ClientDisconnected()` -/
def disconnectRaisesUnlessCleanMax : Bool := {b("disconnectRaisesUnlessCleanMax")}
/-- `exhaust` is `if not self.is_exhausted: return self.readall()` / `return b""` -/
def exhaustReadsUnlessExhausted : Bool := {b("exhaustReadsUnlessExhausted")}
/-- `tell` returns `self._pos` -/
def tellIsPos : Bool := {b("tellIsPos")}
/-- `Request.stream` returns `get_input_stream(self.environ, max_content_length=self.max_content_length)`
(safe_fallback left at its default) -/
def streamIsGuardedInput : Bool := {b("streamIsGuardedInput")}
/-- `get_data` starts from `getattr(self, "_cached_data", None)` and, only when that is `None`, reads
`self.stream.read()` — the single read call of the method -/
def getDataReadsStreamOnce : Bool := {b("getDataReadsStreamOnce")}
/-- the only assignment to `self._cached_data` is `self._cached_data = rv` under `if cache:` -/
def getDataCachesUnderFlag : Bool := {b("getDataCachesUnderFlag")}
/-- `_load_form_data()` is called only under `if parse_form_data:` and before the read -/
def getDataParsesUnderFlag : Bool := {b("getDataParsesUnderFlag")}
/-- `_get_stream_for_parsing` returns `BytesIO(cached_data)` when `_cached_data` is set, else `self.stream` -/
def parsingUsesCachedCopy : Bool := {b("parsingUsesCachedCopy")}
/-- `close()` mentions neither the stream, the cached data nor the environ -/
def closeTouchesOnlyFiles : Bool := {b("closeTouchesOnlyFiles")}
/-- `_load_form_data` returns early when `form` is loaded, parses `_get_stream_for_parsing()` under
`want_form_data_parsed`, and stores the parser's stream as `__dict__["stream"]` -/
def loadFormStoresParserStream : Bool := {b("loadFormStoresParserStream")}

end Wz.Gen.InputStreamFacts
"""
    return write("InputStreamFacts", body, "src/werkzeug/wsgi.py (LimitedStream), src/werkzeug/wrappers/request.py (Request)")
