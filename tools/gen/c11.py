"""C11: `is_byte_range_valid` and `Range.range_for_length` evaluated on the live functions over a
small cube (None and -1..6 in every argument)."""
import importlib

from extract_lib import generator, lean_bool, lean_list, write

VALS = [None, -1, 0, 1, 2, 3, 4, 5, 6]


def lean_opt_int(v):
    return "none" if v is None else f"some ({v})"


@generator("RangeTbl")
def gen_range():
    http = importlib.import_module("werkzeug.http")
    rng = importlib.import_module("werkzeug.datastructures.range")
    rows = []
    for a in VALS:
        for b in VALS:
            for c in VALS:
                rows.append(lean_bool(http.is_byte_range_valid(a, b, c)))
    # range_for_length for every (begin, end) pair Range() accepts and every length
    rfl = []
    for begin in VALS[1:]:
        for end in VALS:
            try:
                r = rng.Range("bytes", [(begin, end)])
            except ValueError:
                continue
            for length in VALS:
                if length is not None and length < 0:
                    continue
                t = r.range_for_length(length)
                res = "none" if t is None else f"some ({t[0]}, {t[1]})"
                rfl.append(f"(({begin}, {lean_opt_int(end)}), {lean_opt_int(length)}, {res})")
    body = f"""namespace Wz.Gen.RangeTbl

/-- the argument values of the cube, in order -/
def vals : List (Option Int) := [{", ".join(lean_opt_int(v) for v in VALS)}]

/-- `is_byte_range_valid(a, b, c)` for a, b, c over `vals` (a outermost) -/
def byteRangeValid : List Bool := {lean_list(rows, 27)}

/-- `Range("bytes", [(begin, end)]).range_for_length(length)` for every pair the constructor
accepts with begin in -1..6, end in None, -1..6, and length in None, 0..6 -/
def rangeForLength : List ((Int × Option Int) × Option Int × Option (Int × Int)) := {lean_list(rfl, 3)}

end Wz.Gen.RangeTbl
"""
    return write("RangeTbl", body, "src/werkzeug/http.py, src/werkzeug/datastructures/range.py")


# ---------------------------------------------------------------------------------------------
# entity tags: the live `parse_etags` over small header texts (quoted vs unquoted syntax look-alikes)

ETAG_ALPHABET = '"*W/, a'
# entity tags (and garbage) whose text looks like syntax; every one alone, every ordered pair with
# both separators, and every triple of the first six
ETAG_POOL = ['*', '"*"', 'W/"*"', 'W/*', '"a"', 'W/"a"', 'w/"*"', 'a', '""', 'W/""', '"W/"', '","', '"a,b"', '"a""', '" "', '"*', '*"', '"**"', 'W/', '"w/*"', '"\\"', "'*'"]


def lean_chars(s):
    """a `List Char` literal (explicit list: `String.toList` of a literal is slow in the kernel)"""

    def ch(c):
        return "'\\''" if c == "'" else "'\\\\'" if c == "\\" else f"'{c}'" if 32 <= ord(c) < 127 else "(Char.ofNat %d)" % ord(c)

    return "[" + ", ".join(ch(c) for c in s) + "]"


def etag_texts():
    import itertools

    texts = ["".join(t) for n in range(0, 4) for t in itertools.product(ETAG_ALPHABET, repeat=n)]
    texts += ETAG_POOL
    for sep in (",", ", ", " , "):
        texts += [a + sep + b for a in ETAG_POOL for b in ETAG_POOL]
    texts += [", ".join(t) for t in itertools.product(ETAG_POOL[:6], repeat=3)]
    seen, out = set(), []
    for t in texts:
        if t not in seen:
            seen.add(t)
            out.append(t)
    return out


@generator("EtagTbl")
def gen_etags():
    http = importlib.import_module("werkzeug.http")
    rows = []
    for t in etag_texts():
        e = http.parse_etags(t)
        strong = "[" + ", ".join(lean_chars(x) for x in sorted(e._strong)) + "]"
        weak = "[" + ", ".join(lean_chars(x) for x in sorted(e._weak)) + "]"
        rows.append(f"({lean_chars(t)}, {strong}, {weak}, {lean_bool(e.star_tag)})")
    # split into blocks so that every `decide` obligation stays small
    n = 250
    blocks = [rows[i : i + n] for i in range(0, len(rows), n)]
    defs = "\n\n".join(f"def rows{i} : List Row := {lean_list(b, 2)}" for i, b in enumerate(blocks))
    pat = http._etag_re.pattern
    body = f"""namespace Wz.Gen.EtagTbl

/-- `(header text, sorted(strong tags), sorted(weak tags), star_tag)` of the live `parse_etags` -/
abbrev Row := List Char × List (List Char) × List (List Char) × Bool

/-- `_etag_re.pattern`, `_etag_re.flags` -/
def etagRe : List Char × Nat := ({lean_chars(pat)}, {int(http._etag_re.flags)})

{defs}

/-- all row blocks -/
def blocks : List (List Row) := [{", ".join(f"rows{i}" for i in range(len(blocks)))}]

end Wz.Gen.EtagTbl
"""
    return write("EtagTbl", body, "src/werkzeug/http.py (parse_etags, _etag_re)")


# ---------------------------------------------------------------------------------------------
# constants of the conditional glue, read from the AST / the live objects


def _parse_src(rel):
    import ast
    import os

    from extract_lib import REPO

    with open(os.path.join(REPO, "src", rel)) as f:
        return ast.parse(f.read())


def _find_fn(tree, name, cls=None):
    import ast

    scope = tree.body
    if cls is not None:
        scope = [n for n in tree.body if isinstance(n, ast.ClassDef) and n.name == cls][0].body
    fns = [n for n in scope if isinstance(n, ast.FunctionDef) and n.name == name]
    return fns[-1]  # after the @overload stubs


@generator("CondConsts")
def gen_cond_consts():
    import ast
    import inspect

    # 1. http.is_resource_modified: which environ key feeds which argument of the sans-io function
    fn = _find_fn(_parse_src("werkzeug/http.py"), "is_resource_modified")
    call = [c for c in ast.walk(fn) if isinstance(c, ast.Call) and ast.unparse(c.func).endswith("is_resource_modified")][0]
    env_keys = []
    for kw in call.keywords:
        v = kw.value
        if isinstance(v, ast.Call) and ast.unparse(v.func) == "environ.get":
            env_keys.append(f"({lean_chars(kw.arg)}, {lean_chars(v.args[0].value)})")
    # 2. Response.make_conditional: the methods it acts on, the status codes it sets, the arguments it
    #    hands to is_resource_modified; _process_range_request: its status code
    rtree = _parse_src("werkzeug/wrappers/response.py")
    mc = _find_fn(rtree, "make_conditional", "Response")
    methods = []
    for n in ast.walk(mc):
        if isinstance(n, ast.Compare) and "REQUEST_METHOD" in ast.unparse(n.left) and isinstance(n.ops[0], ast.In):
            methods = [e.value for e in n.comparators[0].elts]

    def status_codes(f):
        out = []
        for n in ast.walk(f):
            if isinstance(n, ast.Assign) and ast.unparse(n.targets[0]) == "self.status_code" and isinstance(n.value, ast.Constant):
                out.append(n.value.value)
        return out

    irm = [c for c in ast.walk(mc) if isinstance(c, ast.Call) and ast.unparse(c.func) == "is_resource_modified"][0]
    irm_args = [ast.unparse(a) for a in irm.args] + [f"{k.arg}={ast.unparse(k.value)}" for k in irm.keywords]
    prr = _find_fn(rtree, "_process_range_request", "Response")
    irp = _find_fn(rtree, "_is_range_request_processable", "Response")
    irm2 = [c for c in ast.walk(irp) if isinstance(c, ast.Call) and ast.unparse(c.func) == "is_resource_modified"][0]
    irm2_args = [ast.unparse(a) for a in irm2.args] + [f"{k.arg}={ast.unparse(k.value)}" for k in irm2.keywords]
    # 3. send_file: the make_conditional call and the generated entity tag
    sf = _find_fn(_parse_src("werkzeug/utils.py"), "send_file")
    mcc = [c for c in ast.walk(sf) if isinstance(c, ast.Call) and ast.unparse(c.func) == "rv.make_conditional"][0]
    mcc_args = [ast.unparse(a) for a in mcc.args] + [f"{k.arg}={ast.unparse(k.value)}" for k in mcc.keywords]
    fmt = []
    for c in ast.walk(sf):
        if isinstance(c, ast.Call) and ast.unparse(c.func) == "rv.set_etag" and isinstance(c.args[0], ast.JoinedStr):
            for piece in c.args[0].values:
                fmt.append(piece.value if isinstance(piece, ast.Constant) else "{" + ast.unparse(piece.value) + "}")
    wsgi = importlib.import_module("werkzeug.wsgi")
    buf_wrap = inspect.signature(wsgi.wrap_file).parameters["buffer_size"].default
    buf_fw = inspect.signature(wsgi.FileWrapper.__init__).parameters["buffer_size"].default

    def strs(xs):
        return "[" + ", ".join(lean_chars(x) for x in xs) + "]"

    body = f"""namespace Wz.Gen.CondConsts

/-- `http.is_resource_modified(environ, …)`: (argument of the sans-io function, environ key it is read from) -/
def envKeys : List (List Char × List Char) := {lean_list(env_keys, 1)}

/-- `Response.make_conditional` acts when `environ["REQUEST_METHOD"]` is one of -/
def condMethods : List (List Char) := {strs(methods)}

/-- status codes assigned in `make_conditional` (source order) and in `_process_range_request` -/
def condStatuses : List Nat := [{", ".join(str(x) for x in status_codes(mc))}]
def rangeStatuses : List Nat := [{", ".join(str(x) for x in status_codes(prr))}]

/-- arguments of the `is_resource_modified` calls in `make_conditional` / `_is_range_request_processable` -/
def condCallArgs : List (List Char) := {strs(irm_args)}
def ifRangeCallArgs : List (List Char) := {strs(irm2_args)}

/-- `send_file`: arguments of `rv.make_conditional(...)`, pieces of the generated entity tag -/
def sendFileCallArgs : List (List Char) := {strs(mcc_args)}
def sendFileEtagFormat : List (List Char) := {strs(fmt)}

/-- default `buffer_size` of `wrap_file` and of `FileWrapper` -/
def bufferDefaults : Nat × Nat := ({buf_wrap}, {buf_fw})

end Wz.Gen.CondConsts
"""
    return write("CondConsts", body, "src/werkzeug/http.py, wrappers/response.py, utils.py, wsgi.py")
