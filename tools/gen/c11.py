"""C11: `is_byte_range_valid` and `Range.range_for_length` evaluated on the live functions over a
small cube (None and -1..6 in every argument)."""
import importlib

from extract_lib import generator, lean_bool, lean_list, write

VALS = [None, -1, 0, 1, 2, 3, 4, 5, 6]


def lean_opt_int(v):
    return "none" if v is None else f"some ({v})"


@generator("RangeTbl")
def gen_range():
    http = importlib.import_module("werkzeug.http")
    rng = importlib.import_module("werkzeug.datastructures.range")
    rows = []
    for a in VALS:
        for b in VALS:
            for c in VALS:
                rows.append(lean_bool(http.is_byte_range_valid(a, b, c)))
    # range_for_length for every (begin, end) pair Range() accepts and every length
    rfl = []
    for begin in VALS[1:]:
        for end in VALS:
            try:
                r = rng.Range("bytes", [(begin, end)])
            except ValueError:
                continue
            for length in VALS:
                if length is not None and length < 0:
                    continue
                t = r.range_for_length(length)
                res = "none" if t is None else f"some ({t[0]}, {t[1]})"
                rfl.append(f"(({begin}, {lean_opt_int(end)}), {lean_opt_int(length)}, {res})")
    body = f"""namespace Wz.Gen.RangeTbl

/-- the argument values of the cube, in order -/
def vals : List (Option Int) := [{", ".join(lean_opt_int(v) for v in VALS)}]

/-- `is_byte_range_valid(a, b, c)` for a, b, c over `vals` (a outermost) -/
def byteRangeValid : List Bool := {lean_list(rows, 27)}

/-- `Range("bytes", [(begin, end)]).range_for_length(length)` for every pair the constructor
accepts with begin in -1..6, end in None, -1..6, and length in None, 0..6 -/
def rangeForLength : List ((Int × Option Int) × Option Int × Option (Int × Int)) := {lean_list(rfl, 3)}

end Wz.Gen.RangeTbl
"""
    return write("RangeTbl", body, "src/werkzeug/http.py, src/werkzeug/datastructures/range.py")
