"""C16: tables read from the live response / view classes.

* the typed directives of `ResponseCacheControl` (attribute -> key, value when present without a
  value, type) taken from the closures of the `cache_control_property` objects,
* the directive attributes of `ContentSecurityPolicy`,
* every `header_property` of `sansio.Response` (attribute, header name, load/dump function names),
* the `_set_property` attributes (HeaderSet views) and their header names,
* the parameter names `WWWAuthenticate.to_header` always quotes for Digest (AST literal),
* the members of the COOP / COEP enums.
"""
import ast
import importlib
import inspect
import textwrap

from extract_lib import generator, lean_str, write


def closure_of(fn):
    return dict(zip(fn.__code__.co_freevars, [c.cell_contents for c in (fn.__closure__ or ())]))


def strs(l):
    return "[" + ", ".join(lean_str(s) for s in l) + "]"


@generator("Views")
def gen_views():
    ds = importlib.import_module("werkzeug.datastructures")
    sans = importlib.import_module("werkzeug.sansio.response")
    utils = importlib.import_module("werkzeug.utils")
    http = importlib.import_module("werkzeug.http")
    auth = importlib.import_module("werkzeug.datastructures.auth")

    cc_rows = []
    for name in sorted(dir(ds.ResponseCacheControl)):
        p = inspect.getattr_static(ds.ResponseCacheControl, name)
        if isinstance(p, property) and p.fget is not None and "key" in p.fget.__code__.co_freevars:
            c = closure_of(p.fget)
            ty = c["type"]
            tname = "bool" if ty is bool else "int" if ty is int else "str" if ty is None else ty.__name__
            empty = "none" if c["empty"] is None else "true" if c["empty"] is True else repr(c["empty"])
            cc_rows.append((name, c["key"], empty, tname))
    csp_rows = []
    for name in sorted(dir(ds.ContentSecurityPolicy)):
        p = inspect.getattr_static(ds.ContentSecurityPolicy, name)
        if isinstance(p, property) and p.fget is not None and "key" in p.fget.__code__.co_freevars:
            csp_rows.append((name, closure_of(p.fget)["key"]))
    hp_rows = []
    set_rows = []
    for name in sorted(vars(sans.Response)):
        p = vars(sans.Response)[name]
        if isinstance(p, utils.header_property):
            lf = getattr(p.load_func, "__name__", "none") if p.load_func is not None else "none"
            df = getattr(p.dump_func, "__name__", "none") if p.dump_func is not None else "none"
            dflt = "none" if p.default is None else str(getattr(p.default, "value", p.default))
            hp_rows.append((name, p.name, lf, df, dflt, "true" if p.read_only else "false"))
        elif isinstance(p, property) and p.fget is not None and p.fget.__qualname__.startswith("_set_property"):
            set_rows.append((name, closure_of(p.fget)["name"]))
    # literal set of always-quoted digest parameters in WWWAuthenticate.to_header
    src = textwrap.dedent(inspect.getsource(auth.WWWAuthenticate.to_header))
    quoted = []
    for node in ast.walk(ast.parse(src)):
        if isinstance(node, ast.Set) and all(isinstance(e, ast.Constant) and isinstance(e.value, str) for e in node.elts):
            quoted = sorted(e.value for e in node.elts)
    coop = [m.value for m in http.COOP]
    coep = [m.value for m in http.COEP]
    body = f"""namespace Wz.Gen.Views

/-- ResponseCacheControl typed directives: (attribute, directive key, value when the directive is
present without a value: "none" | "true", type: "bool" | "int" | "str") -/
def cacheControlProps : List (String × String × String × String) := [
{chr(10).join("  (" + ", ".join(lean_str(x) for x in r) + ")," for r in cc_rows).rstrip(",")}]

/-- ContentSecurityPolicy directive attributes: (attribute, directive key) -/
def cspProps : List (String × String) := [
{chr(10).join("  (" + ", ".join(lean_str(x) for x in r) + ")," for r in csp_rows).rstrip(",")}]

/-- header_property descriptors of sansio.Response:
(attribute, header, load function, dump function, default, read_only) -/
def headerProps : List (String × String × String × String × String × String) := [
{chr(10).join("  (" + ", ".join(lean_str(x) for x in r) + ")," for r in hp_rows).rstrip(",")}]

/-- HeaderSet-view properties made by `_set_property`: (attribute, header) -/
def setProps : List (String × String) := [
{chr(10).join("  (" + ", ".join(lean_str(x) for x in r) + ")," for r in set_rows).rstrip(",")}]

/-- parameters `WWWAuthenticate.to_header` always quotes in a Digest challenge -/
def digestQuoted : List String := {strs(quoted)}

def coopValues : List String := {strs(coop)}
def coepValues : List String := {strs(coep)}

end Wz.Gen.Views
"""
    return write("Views", body, "src/werkzeug/sansio/response.py, datastructures/{cache_control,csp,auth}.py, http.py (live objects)")


def _headers_names(fn_node):
    """string constants used as a header name in `self.headers.<m>(NAME…)`, `self.headers[NAME]`,
    `NAME in self.headers`, `del self.headers[NAME]` inside a function"""
    names = []

    def is_headers(n):
        return isinstance(n, ast.Attribute) and n.attr == "headers" and isinstance(n.value, ast.Name) and n.value.id == "self"

    for node in ast.walk(fn_node):
        if isinstance(node, ast.Call) and isinstance(node.func, ast.Attribute) and is_headers(node.func.value):
            if node.args and isinstance(node.args[0], ast.Constant) and isinstance(node.args[0].value, str):
                names.append(node.args[0].value)
        elif isinstance(node, ast.Subscript) and is_headers(node.value):
            if isinstance(node.slice, ast.Constant) and isinstance(node.slice.value, str):
                names.append(node.slice.value)
        elif isinstance(node, ast.Compare) and len(node.comparators) == 1 and is_headers(node.comparators[0]):
            if isinstance(node.left, ast.Constant) and isinstance(node.left.value, str):
                names.append(node.left.value)
    out = []
    for n in names:
        if n not in out:
            out.append(n)
    return out


def _touches_headers(fn_node):
    for node in ast.walk(fn_node):
        if isinstance(node, ast.Attribute) and node.attr == "headers" and isinstance(node.value, ast.Name) and node.value.id == "self":
            return True
    return False


def _unconditional_rebind(fn_node, target="_on_update"):
    """does the function assign `<x>._on_update = …` in a statement list reached without passing an
    `if` that tests that attribute? Answers (number of assignments, number guarded by a test that
    mentions the attribute)."""
    total = guarded = 0

    def walk(stmts, guards):
        nonlocal total, guarded
        for st in stmts:
            if isinstance(st, ast.Assign):
                for tg in st.targets:
                    if isinstance(tg, ast.Attribute) and tg.attr == target:
                        total += 1
                        if any(target in ast.dump(g) for g in guards):
                            guarded += 1
            elif isinstance(st, ast.If):
                walk(st.body, guards + [st.test])
                walk(st.orelse, guards + [st.test])
            elif isinstance(st, (ast.For, ast.While, ast.With, ast.Try)):
                for field in ("body", "orelse", "finalbody"):
                    walk(getattr(st, field, []) or [], guards)
                for hnd in getattr(st, "handlers", []) or []:
                    walk(hnd.body, guards)

    walk(fn_node.body, [])
    return total, guarded


@generator("ResponseProps")
def gen_response_props():
    """Every attribute of `sansio.Response` that reads or writes `self.headers`: descriptors
    (`header_property`, `_set_property`, properties whose getter installs an `on_update` closure,
    other properties) and methods, with the header names they use - from the live class and the
    AST of the module."""
    sans = importlib.import_module("werkzeug.sansio.response")
    utils = importlib.import_module("werkzeug.utils")
    src = inspect.getsource(sans)
    tree = ast.parse(src)
    cls = next(n for n in tree.body if isinstance(n, ast.ClassDef) and n.name == "Response")
    fns = {}
    for n in cls.body:
        if isinstance(n, ast.FunctionDef):
            deco = ""
            for d in n.decorator_list:
                if isinstance(d, ast.Name) and d.id == "property":
                    deco = "get"
                elif isinstance(d, ast.Attribute) and d.attr in ("setter", "deleter"):
                    deco = d.attr
            fns.setdefault(n.name, {})[deco or "fn"] = n
    rows = []
    for name in sorted(vars(sans.Response)):
        p = vars(sans.Response)[name]
        if isinstance(p, utils.header_property):
            rows.append((name, "header_property", [p.name], True, True))
        elif isinstance(p, property) and p.fget is not None and p.fget.__qualname__.startswith("_set_property"):
            rows.append((name, "set_view", [closure_of(p.fget)["name"]], p.fset is not None, False))
        elif isinstance(p, property):
            parts = fns.get(name, {})
            touched = any(_touches_headers(f) for f in parts.values())
            if not touched:
                # e.g. status / status_code / is_json: no direct use of self.headers
                rows.append((name, "property_no_headers", [], p.fset is not None, p.fdel is not None))
                continue
            getter = parts.get("get")
            view = getter is not None and any(isinstance(x, ast.FunctionDef) and x.name == "on_update" for x in ast.walk(getter))
            names = []
            for f in parts.values():
                for h in _headers_names(f):
                    if h.lower() not in [x.lower() for x in names]:
                        names.append(h)
            rows.append((name, "view" if view else "property", names, p.fset is not None, p.fdel is not None))
        elif callable(p) and name in fns and "fn" in fns[name] and _touches_headers(fns[name]["fn"]) and name != "__init__":
            rows.append((name, "method", _headers_names(fns[name]["fn"]), False, False))
    # the callback (re)binding of www_authenticate: getter and setter assign `_on_update`
    # unconditionally (not under a test of that attribute)
    g_tot, g_guard = _unconditional_rebind(fns["www_authenticate"]["get"])
    s_tot, s_guard = _unconditional_rebind(fns["www_authenticate"]["setter"])
    charset_mt = sorted(utils._charset_mimetypes)
    body = f"""namespace Wz.Gen.ResponseProps

/-- every attribute of `sansio.Response` that is a descriptor or a method using `self.headers`:
(attribute, kind, header names it uses, has a setter, has a deleter);
kind = "header_property" | "set_view" | "view" (getter installs an on_update closure) | "property" |
"property_no_headers" | "method" -/
def attrs : List (String × String × List String × Bool × Bool) := [
{chr(10).join("  (" + lean_str(n) + ", " + lean_str(k) + ", " + strs(hn) + ", " + ("true" if st else "false") + ", " + ("true" if dl else "false") + ")," for n, k, hn, st, dl in rows).rstrip(",")}]

/-- `Response.www_authenticate`: (assignments to `_on_update` in the getter, of which under a test of
`_on_update`; the same for the setter) -/
def wwwAuthRebind : (Nat × Nat) × (Nat × Nat) := (({g_tot}, {g_guard}), ({s_tot}, {s_guard}))

/-- `werkzeug.utils._charset_mimetypes` -/
def charsetMimetypes : List String := {strs(charset_mt)}

end Wz.Gen.ResponseProps
"""
    return write("ResponseProps", body, "src/werkzeug/sansio/response.py (live class + AST), src/werkzeug/utils.py")


CC_SET_VALUES = [("~", None), ("t", True), ("f", False), ("i0", 0), ("i1", 1), ("i5", 5), ("i-2", -2), ("s", ""), ("sx", "x"), ("s10", "10"), ("sa b", "a b")]


@generator("CacheSetTable")
def gen_cache_set_table():
    """`_CacheControl._set_cache_value` / `_get_cache_value` evaluated on the live class over
    type in {bool, int, None (str)} x every kind of value x {directive absent, present with a value}:
    what is stored afterwards and what the typed getter then answers."""
    ds = importlib.import_module("werkzeug.datastructures")
    rows = []
    for tname, ty in (("bool", bool), ("int", int), ("str", None)):
        for code, val in CC_SET_VALUES:
            for present in (False, True):
                d = ds.ResponseCacheControl({"k": "old"} if present else {})
                try:
                    d._set_cache_value("k", val, ty)
                    res = "absent" if "k" not in d else "none" if d["k"] is None else "str:" + d["k"]
                except ValueError:
                    res = "ValueError"
                got = d._get_cache_value("k", None, ty)
                g = "none" if got is None else ("true" if got is True else "false") if isinstance(got, bool) else f"int:{got}" if isinstance(got, int) else "str:" + got
                rows.append((tname, code, present, res, g))
    body = f"""namespace Wz.Gen.CacheSetTable

/-- (directive type, value assigned (wire code: ~ None, t / f booleans, i<int>, s<text>), directive
present before, stored afterwards: "absent" | "none" | "str:<text>" | "ValueError",
typed read afterwards with empty=None: "none" | "true" | "false" | "int:<n>" | "str:<text>") -/
def rows : List (String × String × Bool × String × String) := [
{chr(10).join("  (" + lean_str(a) + ", " + lean_str(b) + ", " + ("true" if c else "false") + ", " + lean_str(d) + ", " + lean_str(e) + ")," for a, b, c, d, e in rows).rstrip(",")}]

end Wz.Gen.CacheSetTable
"""
    return write("CacheSetTable", body, "src/werkzeug/datastructures/cache_control.py (live _set_cache_value / _get_cache_value)")
