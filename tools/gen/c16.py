"""C16: tables read from the live response / view classes.

* the typed directives of `ResponseCacheControl` (attribute -> key, value when present without a
  value, type) taken from the closures of the `cache_control_property` objects,
* the directive attributes of `ContentSecurityPolicy`,
* every `header_property` of `sansio.Response` (attribute, header name, load/dump function names),
* the `_set_property` attributes (HeaderSet views) and their header names,
* the parameter names `WWWAuthenticate.to_header` always quotes for Digest (AST literal),
* the members of the COOP / COEP enums.
"""
import ast
import importlib
import inspect
import textwrap

from extract_lib import generator, lean_str, write


def closure_of(fn):
    return dict(zip(fn.__code__.co_freevars, [c.cell_contents for c in (fn.__closure__ or ())]))


def strs(l):
    return "[" + ", ".join(lean_str(s) for s in l) + "]"


@generator("Views")
def gen_views():
    ds = importlib.import_module("werkzeug.datastructures")
    sans = importlib.import_module("werkzeug.sansio.response")
    utils = importlib.import_module("werkzeug.utils")
    http = importlib.import_module("werkzeug.http")
    auth = importlib.import_module("werkzeug.datastructures.auth")

    cc_rows = []
    for name in sorted(dir(ds.ResponseCacheControl)):
        p = inspect.getattr_static(ds.ResponseCacheControl, name)
        if isinstance(p, property) and p.fget is not None and "key" in p.fget.__code__.co_freevars:
            c = closure_of(p.fget)
            ty = c["type"]
            tname = "bool" if ty is bool else "int" if ty is int else "str" if ty is None else ty.__name__
            empty = "none" if c["empty"] is None else "true" if c["empty"] is True else repr(c["empty"])
            cc_rows.append((name, c["key"], empty, tname))
    csp_rows = []
    for name in sorted(dir(ds.ContentSecurityPolicy)):
        p = inspect.getattr_static(ds.ContentSecurityPolicy, name)
        if isinstance(p, property) and p.fget is not None and "key" in p.fget.__code__.co_freevars:
            csp_rows.append((name, closure_of(p.fget)["key"]))
    hp_rows = []
    set_rows = []
    for name in sorted(vars(sans.Response)):
        p = vars(sans.Response)[name]
        if isinstance(p, utils.header_property):
            lf = getattr(p.load_func, "__name__", "none") if p.load_func is not None else "none"
            df = getattr(p.dump_func, "__name__", "none") if p.dump_func is not None else "none"
            dflt = "none" if p.default is None else str(getattr(p.default, "value", p.default))
            hp_rows.append((name, p.name, lf, df, dflt, "true" if p.read_only else "false"))
        elif isinstance(p, property) and p.fget is not None and p.fget.__qualname__.startswith("_set_property"):
            set_rows.append((name, closure_of(p.fget)["name"]))
    # literal set of always-quoted digest parameters in WWWAuthenticate.to_header
    src = textwrap.dedent(inspect.getsource(auth.WWWAuthenticate.to_header))
    quoted = []
    for node in ast.walk(ast.parse(src)):
        if isinstance(node, ast.Set) and all(isinstance(e, ast.Constant) and isinstance(e.value, str) for e in node.elts):
            quoted = sorted(e.value for e in node.elts)
    coop = [m.value for m in http.COOP]
    coep = [m.value for m in http.COEP]
    body = f"""namespace Wz.Gen.Views

/-- ResponseCacheControl typed directives: (attribute, directive key, value when the directive is
present without a value: "none" | "true", type: "bool" | "int" | "str") -/
def cacheControlProps : List (String × String × String × String) := [
{chr(10).join("  (" + ", ".join(lean_str(x) for x in r) + ")," for r in cc_rows).rstrip(",")}]

/-- ContentSecurityPolicy directive attributes: (attribute, directive key) -/
def cspProps : List (String × String) := [
{chr(10).join("  (" + ", ".join(lean_str(x) for x in r) + ")," for r in csp_rows).rstrip(",")}]

/-- header_property descriptors of sansio.Response:
(attribute, header, load function, dump function, default, read_only) -/
def headerProps : List (String × String × String × String × String × String) := [
{chr(10).join("  (" + ", ".join(lean_str(x) for x in r) + ")," for r in hp_rows).rstrip(",")}]

/-- HeaderSet-view properties made by `_set_property`: (attribute, header) -/
def setProps : List (String × String) := [
{chr(10).join("  (" + ", ".join(lean_str(x) for x in r) + ")," for r in set_rows).rstrip(",")}]

/-- parameters `WWWAuthenticate.to_header` always quotes in a Digest challenge -/
def digestQuoted : List String := {strs(quoted)}

def coopValues : List String := {strs(coop)}
def coepValues : List String := {strs(coep)}

end Wz.Gen.Views
"""
    return write("Views", body, "src/werkzeug/sansio/response.py, datastructures/{cache_control,csp,auth}.py, http.py (live objects)")
