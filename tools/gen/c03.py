"""C03/C04/C12: routing tables evaluated from the live modules (converters, re, urllib) and
`quote(..., safe=...)` literals collected from the routing sources by AST."""
import ast
import importlib
import os
import re

from extract_lib import REPO, generator, lean_bool, lean_list, write


def lean_str(s: str) -> str:
    """Lean string literal; non-ASCII printable text is written as is (the source file is UTF-8)"""
    out = []
    for ch in s:
        o = ord(ch)
        if ch == '"':
            out.append('\\"')
        elif ch == "\\":
            out.append("\\\\")
        elif o < 32 or o == 127:
            out.append("\\x%02x" % o)
        else:
            out.append(ch)
    return '"' + "".join(out) + '"'


def _digit_runs():
    ds = [c for c in range(0x110000) if re.fullmatch(r"\d", chr(c))]
    runs = []
    i = 0
    while i < len(ds):
        z = ds[i]
        # every class of decimal digits is a run of ten consecutive code points 0..9, and int()
        # reads the same value (the model relies on both)
        if ds[i : i + 10] != list(range(z, z + 10)) or any(int(chr(z + k)) != k for k in range(10)):
            raise SystemExit(f"extract: \\d is not a union of 0..9 runs at U+{z:04X}")
        runs.append(z)
        i += 10
    return runs


@generator("Routing")
def gen_routing():
    conv = importlib.import_module("werkzeug.routing.converters")
    up = importlib.import_module("urllib.parse")
    runs = _digit_runs()
    esc = [c for c in range(0x110000) if re.escape(chr(c)) != chr(c)]
    if any(re.escape(chr(c)) != "\\" + chr(c) for c in esc):
        raise SystemExit("extract: re.escape is not a one-backslash escape")
    rows = []
    for name, cls in conv.DEFAULT_CONVERTERS.items():
        rows.append(f"({lean_str(name)}, {lean_str(cls.regex)}, {int(cls.weight)}, {lean_bool(cls.part_isolating)})")
    # does '.' (no DOTALL) reject exactly LF?  (the path converter's `.*?`)
    dot_rejects = [c for c in range(0x110000) if not re.fullmatch(".", chr(c))]
    safe_sites = []
    for rel in ("routing/converters.py", "routing/rules.py", "routing/map.py", "urls.py"):
        path = os.path.join(REPO, "src", "werkzeug", rel)
        tree = ast.parse(open(path).read())
        for fn in ast.walk(tree):
            if not isinstance(fn, (ast.FunctionDef, ast.AsyncFunctionDef)):
                continue
            for node in ast.walk(fn):
                if isinstance(node, ast.Call) and isinstance(node.func, ast.Name) and node.func.id in ("quote", "urlencode", "quote_plus"):
                    for kw in node.keywords:
                        if kw.arg == "safe" and isinstance(kw.value, ast.Constant) and isinstance(kw.value.value, str):
                            safe_sites.append((rel, fn.name, node.func.id, kw.value.value))
    safe_sites = sorted(set(safe_sites))
    always = sorted(up._ALWAYS_SAFE)
    netloc = [s for s in ("http", "https", "ws", "wss") if s in up.uses_netloc]
    body = f"""namespace Wz.Gen.Routing

/-- first code point of every run `0..9` matched by `re` `\\d` (str pattern); `int()` gives the
same digit value (checked by the generator). -/
def digitZeros : List Nat := {lean_list([str(z) for z in runs])}

/-- code points `re.escape` puts a backslash in front of. -/
def reEscapeSpecial : List Nat := {lean_list([str(c) for c in esc])}

/-- code points `.` (without DOTALL) does not match. -/
def dotRejects : List Nat := {lean_list([str(c) for c in dot_rejects])}

/-- `DEFAULT_CONVERTERS`: (name, class-level regex, weight, part_isolating), in dict order. -/
def convTable : List (String × String × Nat × Bool) := {lean_list(rows, 1)}

/-- `quote/urlencode(..., safe=<literal>)` call sites in the routing sources:
(file, enclosing function, callee, safe literal). -/
def safeSites : List (String × String × String × String) := {lean_list([f"({lean_str(a)}, {lean_str(b)}, {lean_str(c)}, {lean_str(d)})" for a, b, c, d in safe_sites], 1)}

/-- `urllib.parse._ALWAYS_SAFE` (bytes never percent-encoded by `quote`). -/
def alwaysSafe : List Nat := {lean_list([str(b) for b in always])}

/-- which of http/https/ws/wss are in `urllib.parse.uses_netloc`. -/
def usesNetloc : List String := {lean_list([lean_str(s) for s in netloc])}

end Wz.Gen.Routing
"""
    return write("Routing", body, "src/werkzeug/routing/{converters,rules,map}.py, src/werkzeug/urls.py, CPython re / urllib.parse")


def _conv_term(kind, kw):
    def on(v):
        return "none" if v is None else f"(some {v})"

    def oi(v):
        return "none" if v is None else f"(some ({v}))"

    if kind == "string":
        return f"(.string {kw.get('minlength', 1)} {on(kw.get('maxlength'))} {on(kw.get('length'))})"
    if kind == "int":
        return f"(.int {kw.get('fixed_digits', 0)} {lean_bool(kw.get('signed', False))} {oi(kw.get('min'))} {oi(kw.get('max'))})"
    if kind == "float":
        return f"(.float {lean_bool(kw.get('signed', False))} none none)"
    if kind == "any":
        return "(.any [" + ", ".join(f"{lean_str(x)}.toList" for x in kw["items"]) + "])"
    if kind == "uuid":
        return ".uuid"
    if kind == "path":
        return ".path"
    raise KeyError(kind)


SAMPLES = (
    [("string", {}), ("string", {"minlength": 2}), ("string", {"minlength": 1, "maxlength": 4}), ("string", {"minlength": 0, "maxlength": 12}), ("string", {"length": 2}), ("string", {"length": 10}), ("string", {"minlength": 3, "length": 0})]
    + [("int", {}), ("int", {"signed": True}), ("int", {"fixed_digits": 3}), ("int", {"fixed_digits": 2, "signed": True, "min": -5, "max": 7}), ("int", {"min": 3})]
    + [("float", {}), ("float", {"signed": True})]
    + [("any", {"items": ["a"]}), ("any", {"items": ["about", "help", "x.y", "a-b", "foo,bar", "a|b", "é"]}), ("any", {"items": []})]
    + [("uuid", {}), ("path", {})]
)


def _rule_conv_text(kind, kw):
    """converter spelled in rule syntax"""
    if kind == "any":
        return "any(" + ", ".join('"' + x + '"' for x in kw["items"]) + ")"
    # min / max do not enter the regex (and a negative bound cannot be written in a rule string)
    args = ", ".join(f"{k}={v}" for k, v in kw.items() if k not in ("min", "max"))
    return kind + (f"({args})" if args else "")


def _valid_value(kind, kw):
    """a text the converter's regex accepts"""
    if kind == "string":
        if "length" in kw:
            n = kw["length"]
        else:
            n = max(kw.get("minlength", 1), 1)
        return "ab3456789012"[:n] if n else ""
    if kind == "int":
        n = kw.get("fixed_digits", 0) or 2
        return ("-" if kw.get("signed") else "") + "1234567"[: n - (1 if kw.get("signed") and kw.get("fixed_digits") else 0)]
    if kind == "float":
        return ("-" if kw.get("signed") else "") + "1.5"
    if kind == "any":
        return kw["items"][0]
    if kind == "uuid":
        return "12345678-1234-5678-1234-567812345678"
    return "a/b"


@generator("RoutingSamples")
def gen_samples():
    conv = importlib.import_module("werkzeug.routing.converters")
    routing = importlib.import_module("werkzeug.routing")
    rows = []
    for kind, kw in SAMPLES:
        cls = conv.DEFAULT_CONVERTERS[kind]
        if kind == "any":
            obj = cls(None, *kw["items"])
        else:
            obj = cls(None, **kw)
        rows.append(f"({_conv_term(kind, kw)}, {lean_str(obj.regex)}, {int(obj.weight)}, {lean_bool(obj.part_isolating)})")
    # anchoring of the compiled part regex (Rule._parse_rule): the live pattern of `/<conv:v><post>` on a
    # valid value, and on the same text with control characters around it
    probes = []
    for kind, kw in SAMPLES:
        if kind == "any" and not kw["items"]:
            continue
        if kind == "string" and kw.get("length") == 0:
            continue
        v = _valid_value(kind, kw)
        for post in ("", ".x"):
            rule = routing.Rule(f"/<{_rule_conv_text(kind, kw)}:v>{post}", endpoint="e")
            routing.Map([rule])
            part = rule._parts[-1]
            assert not part.static and not part.suffixed
            pat = re.compile(part.content)
            for target in (v + post, v + post + "\n", v + "\n" + post, "\n" + v + post, v + post + "\r", v + post + "\x0b", v + post + "\n\n"):
                probes.append(f"({_conv_term(kind, kw)}, {lean_str(post)}, {lean_str(target)}, {lean_bool(pat.match(target) is not None)})")
    body = f"""import WzVerif.Model.RoutingConv
namespace Wz.Gen.RoutingSamples
open Wz.Routing

/-- live converter instances: (model term, instance regex, weight, part_isolating). -/
def samples : List (Conv × String × Nat × Bool) := {lean_list(rows, 1)}

/-- anchoring of the live compiled part regex of `Rule('/<conv:v>' + post)`:
(converter, literal suffix, target, does `re.compile(part.content).match(target)` succeed). Targets: a
valid value, and the same with LF / CR / VT appended, LF inserted, LF in front. -/
def anchorProbes : List (Conv × String × String × Bool) := {lean_list(probes, 1)}

end Wz.Gen.RoutingSamples
"""
    return write("RoutingSamples", body, "src/werkzeug/routing/converters.py, rules.py (instantiated converters, compiled part regexes)")
