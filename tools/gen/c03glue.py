"""C03/C04/C12: more of the routing sources as checked tables.

RoutingParts  live `Rule._parts` (content, flags, Weighting) of sample rules from the property's grammar, next to
              the same rules as model tokens (obligation: `parseRule` computes exactly these parts); live
              `re.sub` of the slash-merging regex literals on sample paths (obligation: `mergeSlashes`).
RoutingGlue   AST facts: `Rule.build` returns what the compiled builder returns (nothing rewrites the URL
              afterwards); the statement order at the tail of `StateMachineMatcher.match` (conversion, rule
              defaults, alias redirect, return); source text of `Rule.build_compare_key`, `suitable_for` ...;
              the `re.sub` literals that merge slashes.
"""
import ast
import importlib
import os
import re

from extract_lib import REPO, generator, lean_bool, lean_list, write
from gen.c03 import _conv_term, _rule_conv_text, lean_str

# ---- sample rules: tokens "/", ("L", text), ("V", kind, kw, name)

S = "/"


def L(t):
    return ("L", t)


def V(kind, name, **kw):
    return ("V", kind, kw, name)


SAMPLE_RULES = [
    [S],
    [S, L("a")],
    [S, L("a"), S],
    [S, L("a"), S, L("b.c")],
    [S, V("int", "x")],
    [S, V("string", "s"), S],
    [S, L("v"), V("int", "x"), L(".html")],
    [S, L("a-b"), S, V("string", "s", length=2), S, L("x")],
    [S, V("string", "s", minlength=2, maxlength=5), L("-"), S, V("float", "f", signed=True)],
    [S, V("int", "i", fixed_digits=3, signed=True), S, V("uuid", "u")],
    [S, V("any", "a", items=["about", "x.y", "a|b"]), S],
    [S, V("path", "p")],
    [S, V("path", "p"), S],
    [S, L("x"), S, V("path", "p"), S, L("edit")],
    [S, L("x"), S, V("path", "p"), S, L("edit"), S],
    [S, L("w"), V("path", "p"), L(".txt")],
    [S, L("é"), S, V("string", "s"), L(" b")],
    [S, S, L("a"), S, S, S, L("b")],
    [S, L("a"), S, S],
    [S, V("float", "f"), S, L("1.5"), S, V("int", "n")],
]


def rule_text(toks):
    out = []
    for t in toks:
        if t == S:
            out.append("/")
        elif t[0] == "L":
            out.append(t[1])
        else:
            out.append(f"<{_rule_conv_text(t[1], t[2])}:{t[3]}>")
    return "".join(out)


def toks_term(toks):
    out = []
    for t in toks:
        if t == S:
            out.append(".slash")
        elif t[0] == "L":
            out.append(f".lit {lean_str(t[1])}.toList")
        else:
            out.append(f".var {_conv_term(t[1], t[2])} {lean_str(t[3])}.toList")
    return "[" + ", ".join(out) + "]"


def _int(i):
    return str(i) if i >= 0 else f"({i})"


MERGE_SAMPLES = ["", "/", "//", "///", "////", "/a//b", "/a///b", "a////b//c/", "/a/b", "//a//", "/a/////", "/é//ü"]


@generator("RoutingParts")
def gen_parts():
    routing = importlib.import_module("werkzeug.routing")
    rows = []
    for merge in (False, True):
        for toks in SAMPLE_RULES:
            text = rule_text(toks)
            if "//" in text and not merge:
                continue
            rule = routing.Rule(text, endpoint="e", merge_slashes=merge)
            routing.Map([rule], merge_slashes=merge)
            parts = []
            # Rule.compile prefixes the domain part; the rule's own parts follow it
            for p in rule._parts[1:]:
                w = p.weight
                if p.static:
                    parts.append(f"({lean_str(p.content)}, false, true, false, 0, [], 0, [])")
                else:
                    sw = "[" + ", ".join(f"({_int(a)}, {_int(b)})" for a, b in w.static_weights) + "]"
                    aw = "[" + ", ".join(_int(x) for x in w.argument_weights) + "]"
                    parts.append(f"({lean_str(p.content)}, {lean_bool(p.final)}, false, {lean_bool(p.suffixed)}, {_int(w.number_static_weights)}, {sw}, {_int(w.number_argument_weights)}, {aw})")
            rows.append(f"({lean_bool(merge)}, {toks_term(toks)},\n    [" + ",\n     ".join(parts) + "])")
    # the regex literals that merge slashes, and their behaviour on sample paths
    lits = merge_literals()
    merges = []
    for lit, repl in sorted(set((l, r) for _, _, l, r in lits)):
        for s in MERGE_SAMPLES:
            merges.append(f"({lean_str(lit)}, {lean_str(s)}, {lean_str(re.sub(lit, repl, s))})")
    body = f"""import WzVerif.Model.RoutingMatch
namespace Wz.Gen.RoutingParts
open Wz.Routing

/-- live `Rule(text, merge_slashes=m)._parts[1:]` after binding, for sample rules of the property's grammar:
(merge_slashes, the rule as model tokens, [(content, final, static, suffixed, weight…)]) -/
def parts : List (Bool × List Tok × List (String × Bool × Bool × Bool × Int × List (Int × Int) × Int × List Int)) := {lean_list(rows, 1)}

/-- `re.sub(literal, "/", sample)` for every slash-merging literal of the routing sources -/
def merges : List (String × String × String) := {lean_list(merges, 1)}

end Wz.Gen.RoutingParts
"""
    return write("RoutingParts", body, "src/werkzeug/routing/rules.py (live Rule._parts), matcher.py / rules.py re.sub literals")


def merge_literals():
    """(file, function, regex literal, replacement) of every `re.sub(<str>, <str>, ...)` in matcher.py / rules.py"""
    out = []
    for rel in ("routing/matcher.py", "routing/rules.py", "routing/map.py"):
        tree = ast.parse(open(os.path.join(REPO, "src", "werkzeug", rel)).read())
        for fn in ast.walk(tree):
            if not isinstance(fn, (ast.FunctionDef, ast.AsyncFunctionDef)):
                continue
            for n in ast.walk(fn):
                if isinstance(n, ast.Call) and isinstance(n.func, ast.Attribute) and n.func.attr == "sub" and isinstance(n.func.value, ast.Name) and n.func.value.id == "re" and len(n.args) >= 2:
                    a, b = n.args[0], n.args[1]
                    if isinstance(a, ast.Constant) and isinstance(a.value, str) and isinstance(b, ast.Constant) and isinstance(b.value, str):
                        out.append((rel, fn.name, a.value, b.value))
    return sorted(set(out))


def _norm(n):
    return " ".join(ast.unparse(n).split())


def _fn(tree, cls, name):
    c = next(n for n in tree.body if isinstance(n, ast.ClassDef) and n.name == cls)
    return next(n for n in c.body if isinstance(n, ast.FunctionDef) and n.name == name)


def _no_doc(stmts):
    return [s for s in stmts if not (isinstance(s, ast.Expr) and isinstance(s.value, ast.Constant) and isinstance(s.value.value, str))]


def match_tail(tree):
    """classify the statements of the `elif rv is not None:` branch at the end of StateMachineMatcher.match"""
    fn = _fn(tree, "StateMachineMatcher", "match")
    branch = None
    for top in fn.body:  # statements of match() itself, not of the nested _match()
        n = top
        while isinstance(n, ast.If):
            if _norm(n.test) == "rv is not None":
                branch = n
            n = n.orelse[0] if len(n.orelse) == 1 else None
    if branch is None:
        return ["other:no `rv is not None` branch"]
    out = []
    for s in branch.body:
        t = _norm(s)
        if t == "rule, values = rv":
            out.append("unpack")
        elif t == "result = {}":
            out.append("init")
        elif isinstance(s, ast.For) and _norm(s.iter) == "zip(rule._converters.keys(), values)" and "to_python(value)" in t and "except ValidationError" in t and "raise NoMatch(have_match_for, websocket_mismatch)" in t and _norm(s.body[-1]) == "result[str(name)] = value":
            out.append("convert")
        elif isinstance(s, ast.If) and _norm(s.test) == "rule.defaults" and not s.orelse and [_norm(x) for x in s.body] == ["result.update(rule.defaults)"]:
            out.append("defaults")
        elif isinstance(s, ast.If) and _norm(s.test) == "rule.alias and rule.map.redirect_defaults" and not s.orelse and [_norm(x) for x in s.body] == ["raise RequestAliasRedirect(result, rule.endpoint)"]:
            out.append("alias")
        elif t == "return (rule, result)" or t == "return rule, result":
            out.append("return")
        else:
            out.append("other:" + t[:100])
    return out


@generator("RoutingGlue")
def gen_glue():
    rules_tree = ast.parse(open(os.path.join(REPO, "src", "werkzeug", "routing", "rules.py")).read())
    matcher_tree = ast.parse(open(os.path.join(REPO, "src", "werkzeug", "routing", "matcher.py")).read())
    build = _fn(rules_tree, "Rule", "build")
    returns, other = [], []
    for n in ast.walk(build):
        if isinstance(n, ast.Return):
            returns.append("None" if n.value is None else _norm(n.value))
    def walk_stmts(stmts):
        for s in _no_doc(stmts):
            if isinstance(s, ast.Try):
                walk_stmts(s.body)
                for h in s.handlers:
                    other_h = _norm(h.type) if h.type is not None else "<bare>"
                    if other_h != "ValidationError":
                        other.append("except " + other_h)
                    walk_stmts(h.body)
                walk_stmts(s.orelse)
                walk_stmts(s.finalbody)
            elif isinstance(s, ast.If):
                walk_stmts(s.body)
                walk_stmts(s.orelse)
            elif isinstance(s, ast.Return):
                pass
            else:
                other.append(_norm(s)[:120])
    walk_stmts(build.body)
    texts = {}
    for cls, name in (("Rule", "build_compare_key"), ("Rule", "suitable_for"), ("Rule", "provides_defaults_for")):
        f = _fn(rules_tree, cls, name)
        texts[name] = [_norm(s) for s in _no_doc(f.body)]
    conv_tree = ast.parse(open(os.path.join(REPO, "src", "werkzeug", "routing", "converters.py")).read())
    conv_methods = []
    for c in [n for n in conv_tree.body if isinstance(n, ast.ClassDef)]:
        bases = [_norm(b) for b in c.bases]
        meths = sorted(n.name for n in c.body if isinstance(n, (ast.FunctionDef, ast.AsyncFunctionDef)))
        attrs = sorted(t.id for n in c.body if isinstance(n, ast.Assign) for t in n.targets if isinstance(t, ast.Name))
        conv_methods.append((c.name, bases, meths, attrs))
    # every branching condition of the inner `_match` (source order) and the body of MapAdapter.encode_query_args
    mfn = _fn(matcher_tree, "StateMachineMatcher", "match")
    inner = next(n for n in ast.walk(mfn) if isinstance(n, ast.FunctionDef) and n.name == "_match")
    tests = []

    def collect(stmts):
        for st in stmts:
            if isinstance(st, ast.If):
                tests.append("if " + _norm(st.test))
                collect(st.body)
                collect(st.orelse)
            elif isinstance(st, (ast.For, ast.While)):
                tests.append(("for " + _norm(st.target) + " in " + _norm(st.iter)) if isinstance(st, ast.For) else "while " + _norm(st.test))
                collect(st.body)
                collect(st.orelse)
            elif isinstance(st, ast.Raise):
                tests.append("raise " + (_norm(st.exc) if st.exc is not None else ""))
            elif isinstance(st, ast.Return):
                tests.append("return " + (_norm(st.value) if st.value is not None else ""))

    collect(inner.body)
    map_tree = ast.parse(open(os.path.join(REPO, "src", "werkzeug", "routing", "map.py")).read())
    enc = [_norm(x) for x in _no_doc(_fn(map_tree, "MapAdapter", "encode_query_args").body)]
    mru = [_norm(x) for x in _no_doc(_fn(map_tree, "MapAdapter", "make_redirect_url").body)]
    # statements of the (implementation of) MapAdapter.match in front of its `try:`
    ma = [n for n in next(n for n in map_tree.body if isinstance(n, ast.ClassDef) and n.name == "MapAdapter").body if isinstance(n, ast.FunctionDef) and n.name == "match"][-1]
    prelude = []
    for st in _no_doc(ma.body):
        if isinstance(st, ast.Try):
            break
        prelude.append(_norm(st))
    tail = match_tail(matcher_tree)
    lits = merge_literals()
    body = f"""namespace Wz.Gen.RoutingGlue

/-- every `return` expression of `Rule.build`, in source order -/
def ruleBuildReturns : List String := {lean_list([lean_str(x) for x in returns], 1)}

/-- statements of `Rule.build` other than try / if / return (and handlers other than `ValidationError`) -/
def ruleBuildOther : List String := {lean_list([lean_str(x) for x in other], 1)}

/-- the tail of `StateMachineMatcher.match` once `_match` found a rule: unpack, init, convert (to_python, a
ValidationError becomes NoMatch), defaults (`result.update(rule.defaults)`), alias (raise
RequestAliasRedirect(result, endpoint)), return -/
def matchTail : List String := {lean_list([lean_str(x) for x in tail], 8)}

/-- body of `Rule.build_compare_key` -/
def buildCompareKey : List String := {lean_list([lean_str(x) for x in texts["build_compare_key"]], 1)}

/-- body of `Rule.suitable_for` -/
def suitableFor : List String := {lean_list([lean_str(x) for x in texts["suitable_for"]], 1)}

/-- body of `Rule.provides_defaults_for` -/
def providesDefaultsFor : List String := {lean_list([lean_str(x) for x in texts["provides_defaults_for"]], 1)}

/-- control skeleton of the inner `_match` of `StateMachineMatcher.match`: every `if` / `for` header, `raise` and
`return`, in source order -/
def matchSkeleton : List String := {lean_list([lean_str(x) for x in tests], 1)}

/-- statements of `MapAdapter.match` in front of its `try:` (what happens to path_info, method, domain part before
the matcher sees them) -/
def matchPrelude : List String := {lean_list([lean_str(x) for x in prelude], 1)}

/-- body of `MapAdapter.encode_query_args` -/
def encodeQueryArgs : List String := {lean_list([lean_str(x) for x in enc], 1)}

/-- body of `MapAdapter.make_redirect_url` -/
def makeRedirectUrl : List String := {lean_list([lean_str(x) for x in mru], 1)}

/-- classes of converters.py: (class, bases, methods defined in the class body, class attributes assigned there) -/
def converterClasses : List (String × List String × List String × List String) := {lean_list(["(" + lean_str(a) + ", [" + ", ".join(lean_str(x) for x in b) + "], [" + ", ".join(lean_str(x) for x in c) + "], [" + ", ".join(lean_str(x) for x in d) + "])" for a, b, c, d in conv_methods], 1)}

/-- every `re.sub(<literal>, <literal>, …)` of matcher.py / rules.py / map.py: (file, function, regex, replacement) -/
def reSubs : List (String × String × String × String) := {lean_list([f"({lean_str(a)}, {lean_str(b)}, {lean_str(c)}, {lean_str(d)})" for a, b, c, d in lits], 1)}

end Wz.Gen.RoutingGlue
"""
    return write("RoutingGlue", body, "src/werkzeug/routing/rules.py, matcher.py, map.py (AST)")
