"""C02 (form data survives encode -> parse): what `werkzeug.http.parse_options_header` does to a quoted
parameter value, taken from the source by AST (the `str.replace` chain of the "remove quotes" step and
the escape pairs the quote scanner skips), and the token / key character classes probed through the
live compiled regexes."""
import ast
import importlib
import os
import re

from extract_lib import REPO, generator, lean_bool, lean_list


def lean_str(s: str) -> str:
    """Lean string literal (own copy: control characters as \\xHH / \\uHHHH, which Lean parses)"""
    out = []
    for ch in s:
        o = ord(ch)
        if ch == '"':
            out.append('\\"')
        elif ch == "\\":
            out.append("\\\\")
        elif 32 <= o < 127:
            out.append(ch)
        elif o < 256:
            out.append("\\x%02x" % o)
        elif o < 0x10000:
            out.append("\\u%04x" % o)
        else:
            out.append(ch)
    return '"' + "".join(out) + '"'


def _fn(tree, name):
    for n in ast.walk(tree):
        if isinstance(n, ast.FunctionDef) and n.name == name:
            return n
    return None


def _is_sub(node, var, idx):
    """`var[idx]`"""
    if not (isinstance(node, ast.Subscript) and isinstance(node.value, ast.Name) and node.value.id == var):
        return False
    s = node.slice
    if isinstance(s, ast.UnaryOp) and isinstance(s.op, ast.USub) and isinstance(s.operand, ast.Constant):
        return -s.operand.value == idx
    return isinstance(s, ast.Constant) and s.value == idx


def _replace_chain(expr):
    """`base.replace(a, b).replace(c, d)…` -> (unparsed base, [(a, b), (c, d), …]) in application order,
    or None when the expression is anything else"""
    steps = []
    while isinstance(expr, ast.Call):
        f = expr.func
        if not (isinstance(f, ast.Attribute) and f.attr == "replace" and len(expr.args) == 2 and not expr.keywords):
            return None
        a, b = expr.args
        if not (isinstance(a, ast.Constant) and isinstance(a.value, str) and isinstance(b, ast.Constant) and isinstance(b.value, str)):
            return None
        steps.append((a.value, b.value))
        expr = f.value
    return ast.unparse(expr), list(reversed(steps))


def quoted_value_facts(fn):
    """the `if pv[0] == pv[-1] == '"':` statement of parse_options_header: the replace steps applied to
    the quoted value, the slices they start from, and whether every statement of the block was understood"""
    blocks = []
    for n in ast.walk(fn):
        if isinstance(n, ast.If) and isinstance(n.test, ast.Compare):
            t = n.test
            if (
                _is_sub(t.left, "pv", 0)
                and len(t.ops) == 2
                and all(isinstance(o, ast.Eq) for o in t.ops)
                and _is_sub(t.comparators[0], "pv", -1)
                and isinstance(t.comparators[1], ast.Constant)
                and t.comparators[1].value == '"'
            ):
                blocks.append(n)
    if len(blocks) != 1:
        return [], [], False
    blk = blocks[0]
    ok = not blk.orelse
    steps, bases = [], []
    for st in blk.body:
        if not (isinstance(st, ast.Assign) and len(st.targets) == 1 and isinstance(st.targets[0], ast.Name) and st.targets[0].id == "pv"):
            ok = False
            continue
        ch = _replace_chain(st.value)
        if ch is None:
            ok = False
            continue
        bases.append(ch[0])
        steps += ch[1]
    # anything else in the function that rewrites pv with str.replace / str.translate / re.sub
    others = 0
    for n in ast.walk(fn):
        if isinstance(n, ast.Call) and isinstance(n.func, ast.Attribute) and n.func.attr in ("replace", "translate", "sub"):
            inside = any(n is m for st in blk.body for m in ast.walk(st))
            if not inside:
                others += 1
    return steps, bases, ok and others == 0


def scan_escapes(fn):
    """the set literal in `rest[pos : pos + 2] in {...}` of the closing-quote scanner"""
    out = []
    for n in ast.walk(fn):
        if isinstance(n, ast.Compare) and len(n.ops) == 1 and isinstance(n.ops[0], ast.In) and isinstance(n.comparators[0], ast.Set):
            if ast.unparse(n.left).replace(" ", "") == "rest[pos:pos+2]":
                out.append(sorted(e.value for e in n.comparators[0].elts if isinstance(e, ast.Constant)))
    return out[0] if len(out) == 1 else []


def client_facts():
    """constants of `werkzeug.test.stream_encode_multipart`: the read size of `reader(n)`, the fallback
    content type, and the Data events it sends (unparsed calls, in source order)"""
    path = os.path.join(REPO, "src", "werkzeug", "test.py")
    tree = ast.parse(open(path).read())
    fn = _fn(tree, "stream_encode_multipart")
    reads, fallback, sends = [], [], []
    if fn is not None:
        for n in ast.walk(fn):
            if isinstance(n, ast.Call) and isinstance(n.func, ast.Name) and n.func.id == "reader":
                reads += [a.value for a in n.args if isinstance(a, ast.Constant)]
            if isinstance(n, ast.BoolOp) and isinstance(n.op, ast.Or):
                fallback += [v.value for v in n.values if isinstance(v, ast.Constant) and isinstance(v.value, str)]
            if isinstance(n, ast.Call) and isinstance(n.func, ast.Attribute) and n.func.attr == "send_event":
                sends.append(ast.unparse(n.args[0]) if n.args else "")
    return reads, fallback, sends


@generator("FormOptions")
def gen_form_options():
    from extract_lib import write

    http = importlib.import_module("werkzeug.http")
    path = os.path.join(REPO, "src", "werkzeug", "http.py")
    tree = ast.parse(open(path).read())
    fn = _fn(tree, "parse_options_header")
    steps, bases, ok = quoted_value_facts(fn) if fn is not None else ([], [], False)
    escapes = scan_escapes(fn) if fn is not None else []
    key_re, tok_re, cont_re = http._parameter_key_re, http._parameter_token_value_re, http._continuation_re
    tok = [bool(tok_re.fullmatch(chr(c))) for c in range(256)]
    key = [bool(key_re.fullmatch(chr(c) + "=")) for c in range(256)]
    wide = all(not tok_re.fullmatch(ch) and not key_re.fullmatch(ch + "=") for ch in "é名٠\U0001d7d8ǅ")

    def flags(rx):
        return int(rx.flags & ~re.UNICODE)

    body = f"""namespace Wz.Gen.FormOptions

/-- the `str.replace(old, new)` calls `parse_options_header` applies to a quoted parameter value, in
the order they are applied (found by AST in the `if pv[0] == pv[-1] == '"':` block) -/
def quotedReplaces : List (String × String) := {lean_list(["(" + lean_str(a) + ", " + lean_str(b) + ")" for a, b in steps], 1) if steps else "[]"}

/-- the expression each assignment of that block starts from -/
def quotedBases : List String := {lean_list([lean_str(b) for b in bases], 1) if bases else "[]"}

/-- the block consists of nothing but `pv = <replace chain>` assignments, and no other
`replace` / `translate` / `sub` call occurs in the function -/
def quotedBlockRecognised : Bool := {lean_bool(ok)}

/-- the two-character sequences the closing-quote scanner skips (`rest[pos : pos + 2] in {{...}}`) -/
def scanEscapes : List String := {lean_list([lean_str(e) for e in escapes], 1) if escapes else "[]"}

/-- `_parameter_key_re.pattern`, `_parameter_token_value_re.pattern`, `_continuation_re.pattern` -/
def keyPattern : String := {lean_str(key_re.pattern)}
def tokenPattern : String := {lean_str(tok_re.pattern)}
def continuationPattern : String := {lean_str(cont_re.pattern)}
/-- their flags without re.UNICODE (re.ASCII = 256) -/
def patternFlags : List Nat := [{flags(key_re)}, {flags(tok_re)}, {flags(cont_re)}]

/-- live probe: `_parameter_token_value_re.fullmatch(chr(c))` for c = 0..255 -/
def tokenClass : List Bool := {lean_list([lean_bool(b) for b in tok])}

/-- live probe: `_parameter_key_re.fullmatch(chr(c) + "=")` for c = 0..255 -/
def keyClass : List Bool := {lean_list([lean_bool(b) for b in key])}

/-- live probe: letters and digits outside Latin-1 (é 名 ARABIC-INDIC ZERO, MATHEMATICAL DOUBLE-STRUCK
ZERO, a titlecase letter) are in neither class -/
def classesAsciiOnly : Bool := {lean_bool(wide)}

/-- `stream_encode_multipart`: the sizes passed to `reader(n)`, the string constants of the content
type fallback `… or "application/octet-stream"`, and the events passed to `encoder.send_event`
(in `ast.walk` order) -/
def clientReadSizes : List Nat := {lean_list([str(x) for x in client_facts()[0]], 8) if client_facts()[0] else "[]"}
def clientFallbackTypes : List String := {lean_list([lean_str(x) for x in client_facts()[1]], 1) if client_facts()[1] else "[]"}
def clientSendEvents : List String := {lean_list([lean_str(x) for x in client_facts()[2]], 1) if client_facts()[2] else "[]"}

end Wz.Gen.FormOptions
"""
    return write("FormOptions", body, "src/werkzeug/http.py, src/werkzeug/test.py")
