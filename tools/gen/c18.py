"""C18: translate the bodies of the copy-on-write methods of werkzeug.local into primitive heap effects.

The translator accepts only the tiny statement subset these methods use and fails loudly on anything
else (a failed extraction is a broken proof obligation for the check).
"""
import ast
import os

from extract_lib import REPO, generator, write

STORAGE_ATTRS = {"__storage", "_storage", "_Local__storage"}

METHODS = [
    # (class, method, lean name, argument that plays `name`/`value`/`obj`)
    ("Local", "__setattr__", "localSetattr"),
    ("Local", "__delattr__", "localDelattr"),
    ("Local", "__getattr__", "localGetattr"),
    ("Local", "__iter__", "localIter"),
    ("Local", "__release_local__", "localRelease"),
    ("LocalStack", "push", "stackPush"),
    ("LocalStack", "pop", "stackPop"),
    ("LocalStack", "top", "stackTop"),
    ("LocalStack", "__release_local__", "stackRelease"),
]


class Untranslatable(Exception):
    pass


def is_storage(n):
    return isinstance(n, ast.Attribute) and isinstance(n.value, ast.Name) and n.value.id == "self" and n.attr in STORAGE_ATTRS


def empty_literal(n):
    """False for {}, True for [], None otherwise"""
    if isinstance(n, ast.Dict) and not n.keys:
        return False
    if isinstance(n, ast.List) and not n.elts:
        return True
    return None


def is_minus_one(n):
    return (isinstance(n, ast.UnaryOp) and isinstance(n.op, ast.USub) and isinstance(n.operand, ast.Constant) and n.operand.value == 1) or (
        isinstance(n, ast.Constant) and n.value == -1
    )


def storage_get(n):
    """`self.<storage>.get(<empty literal>)` -> isList, else None"""
    if isinstance(n, ast.Call) and isinstance(n.func, ast.Attribute) and n.func.attr == "get" and is_storage(n.func.value) and len(n.args) == 1 and not n.keywords:
        return empty_literal(n.args[0])
    return None


class Tr:
    def __init__(self, where):
        self.where = where
        self.regs = {}
        self.acc_var = None

    def reg(self, name):
        if name not in self.regs:
            self.regs[name] = len(self.regs)
        return self.regs[name]

    def tmp(self):
        return self.reg(f"<tmp{len(self.regs)}>")

    def known(self, name):
        if name not in self.regs:
            raise Untranslatable(f"{self.where}: use of unknown object variable {name!r}")
        return self.regs[name]

    def bad(self, node):
        raise Untranslatable(f"{self.where}: line {getattr(node, 'lineno', '?')}: unsupported statement/expression: {ast.unparse(node)}")

    def obj_expr(self, e, dst_name=None):
        """ops that leave the object denoted by `e` in a register; returns (ops, reg)"""
        k = storage_get(e)
        if k is not None:
            r = self.reg(dst_name) if dst_name else self.tmp()
            return [f".load {r} {lb(k)}"], r
        if isinstance(e, ast.Call) and isinstance(e.func, ast.Attribute) and e.func.attr == "copy" and not e.args and not e.keywords:
            inner = e.func.value
            if isinstance(inner, ast.Name):
                src = self.known(inner.id)
                ops = []
            else:
                ops, src = self.obj_expr(inner)
            r = self.reg(dst_name) if dst_name else self.tmp()
            return ops + [f".copy {r} {src}"], r
        k = empty_literal(e)
        if k is not None:
            r = self.reg(dst_name) if dst_name else self.tmp()
            return [f".fresh {r} {lb(k)}"], r
        if isinstance(e, ast.Subscript) and isinstance(e.value, ast.Name) and isinstance(e.slice, ast.Slice) and e.slice.lower is None and e.slice.step is None and e.slice.upper is not None and is_minus_one(e.slice.upper):
            src = self.known(e.value.id)
            r = self.reg(dst_name) if dst_name else self.tmp()
            return [f".sliceInit {r} {src}"], r
        if isinstance(e, ast.Name) and dst_name is None:
            return [], self.known(e.id)
        self.bad(e)

    def block(self, stmts, cont):
        """translate `stmts` followed by continuation `cont` (a list of statements); returns a list of paths"""
        if not stmts:
            if cont:
                return self.block(cont[0], cont[1:])
            return [[".retNone"]]
        s, rest = stmts[0], stmts[1:]
        if isinstance(s, ast.Expr) and isinstance(s.value, ast.Constant) and isinstance(s.value.value, str):
            return self.block(rest, cont)  # docstring
        if isinstance(s, ast.Assign) and len(s.targets) == 1:
            tgt = s.targets[0]
            if isinstance(tgt, ast.Name):
                v = s.value
                if isinstance(v, ast.Subscript) and isinstance(v.value, ast.Name) and is_minus_one(v.slice):
                    if self.acc_var not in (None, tgt.id):
                        self.bad(s)
                    self.acc_var = tgt.id
                    ops = [f".peekLast {self.known(v.value.id)}"]
                else:
                    ops, _ = self.obj_expr(v, tgt.id)
                return [ops + p for p in self.block(rest, cont)]
            if isinstance(tgt, ast.Subscript) and isinstance(tgt.value, ast.Name) and isinstance(tgt.slice, ast.Name) and tgt.slice.id == "name" and isinstance(s.value, ast.Name) and s.value.id == "value":
                return [[f".setItem {self.known(tgt.value.id)}"] + p for p in self.block(rest, cont)]
            self.bad(s)
        if isinstance(s, ast.Delete) and len(s.targets) == 1:
            tgt = s.targets[0]
            if isinstance(tgt, ast.Subscript) and isinstance(tgt.value, ast.Name) and isinstance(tgt.slice, ast.Name) and tgt.slice.id == "name":
                return [[f".delItem {self.known(tgt.value.id)}"] + p for p in self.block(rest, cont)]
            self.bad(s)
        if isinstance(s, ast.Expr) and isinstance(s.value, ast.Call) and isinstance(s.value.func, ast.Attribute) and not s.value.keywords:
            c = s.value
            if c.func.attr == "append" and isinstance(c.func.value, ast.Name) and len(c.args) == 1 and isinstance(c.args[0], ast.Name) and c.args[0].id == "obj":
                return [[f".append {self.known(c.func.value.id)}"] + p for p in self.block(rest, cont)]
            if c.func.attr == "set" and is_storage(c.func.value) and len(c.args) == 1:
                ops, r = self.obj_expr(c.args[0])
                return [ops + [f".store {r}"] + p for p in self.block(rest, cont)]
            self.bad(s)
        if isinstance(s, ast.If):
            t = s.test
            if isinstance(t, ast.Compare) and len(t.ops) == 1 and isinstance(t.ops[0], ast.In) and isinstance(t.left, ast.Name) and t.left.id == "name" and isinstance(t.comparators[0], ast.Name):
                r = self.known(t.comparators[0].id)
                yes, no = f".assumeContains {r} true", f".assumeContains {r} false"
            elif (
                isinstance(t, ast.Compare)
                and len(t.ops) == 1
                and isinstance(t.ops[0], ast.Eq)
                and isinstance(t.left, ast.Call)
                and isinstance(t.left.func, ast.Name)
                and t.left.func.id == "len"
                and len(t.left.args) == 1
                and isinstance(t.left.args[0], ast.Name)
                and isinstance(t.comparators[0], ast.Constant)
                and t.comparators[0].value == 0
            ):
                r = self.known(t.left.args[0].id)
                yes, no = f".assumeEmpty {r} true", f".assumeEmpty {r} false"
            else:
                self.bad(t)
            saved = dict(self.regs)
            a = [[yes] + p for p in self.block(s.body, [rest] + cont)]
            regs_a = self.regs
            self.regs = dict(saved)
            # keep register numbering consistent across branches: continue numbering after branch a
            for k_, v_ in regs_a.items():
                self.regs.setdefault(k_, v_)
            b = [[no] + p for p in self.block(s.orelse, [rest] + cont)]
            return a + b
        if isinstance(s, ast.Return):
            v = s.value
            if v is None or (isinstance(v, ast.Constant) and v.value is None):
                return [[".retNone"]]
            if isinstance(v, ast.Name):
                if v.id == self.acc_var:
                    return [[".retAcc"]]
                return [[f".retReg {self.known(v.id)}"]]
            if isinstance(v, ast.Subscript) and isinstance(v.value, ast.Name):
                if isinstance(v.slice, ast.Name) and v.slice.id == "name":
                    return [[f".retItem {self.known(v.value.id)}"]]
                if is_minus_one(v.slice):
                    return [[f".retLast {self.known(v.value.id)}"]]
            if isinstance(v, ast.Call) and isinstance(v.func, ast.Name) and v.func.id == "iter" and len(v.args) == 1:
                it = v.args[0]
                if isinstance(it, ast.Call) and isinstance(it.func, ast.Attribute) and it.func.attr == "items" and not it.args:
                    ops, r = self.obj_expr(it.func.value)
                    return [ops + [f".retItems {r}"]]
            self.bad(s)
        if isinstance(s, ast.Raise):
            e = s.exc
            if isinstance(e, ast.Call) and isinstance(e.func, ast.Name) and e.func.id == "AttributeError" and s.cause is None:
                return [[".raiseAttr"]]
            self.bad(s)
        self.bad(s)


def lb(b):
    return "true" if b else "false"


def translate_all():
    path = os.path.join(REPO, "src", "werkzeug", "local.py")
    tree = ast.parse(open(path).read())
    classes = {n.name: n for n in tree.body if isinstance(n, ast.ClassDef)}
    out = []
    for cls, meth, lean in METHODS:
        if cls not in classes:
            raise Untranslatable(f"class {cls} not found in local.py")
        fns = [n for n in classes[cls].body if isinstance(n, ast.FunctionDef) and n.name == meth]
        if len(fns) != 1:
            raise Untranslatable(f"{cls}.{meth}: expected exactly one definition, found {len(fns)}")
        tr = Tr(f"{cls}.{meth}")
        paths = tr.block(fns[0].body, [])
        out.append((cls, meth, lean, paths))
    return out


def stack_proxy_test():
    """the unbound test of the LocalStack closure in LocalProxy.__init__: 'isNone' or 'falsy'"""
    path = os.path.join(REPO, "src", "werkzeug", "local.py")
    tree = ast.parse(open(path).read())
    cls = [n for n in tree.body if isinstance(n, ast.ClassDef) and n.name == "LocalProxy"]
    if len(cls) != 1:
        raise Untranslatable("class LocalProxy not found")
    init = [n for n in cls[0].body if isinstance(n, ast.FunctionDef) and n.name == "__init__"]
    if len(init) != 1:
        raise Untranslatable("LocalProxy.__init__ not found")
    found = []
    for node in ast.walk(init[0]):
        if isinstance(node, ast.If) and isinstance(node.test, ast.Call) and ast.unparse(node.test) == "isinstance(local, LocalStack)":
            fns = [n for n in node.body if isinstance(n, ast.FunctionDef) and n.name == "_get_current_object"]
            if len(fns) != 1:
                raise Untranslatable("LocalProxy.__init__: LocalStack branch without a single _get_current_object")
            body = [st for st in fns[0].body if not (isinstance(st, ast.Expr) and isinstance(st.value, ast.Constant))]
            if len(body) != 3 or ast.unparse(body[0]) != "obj = local.top" or ast.unparse(body[2]) != "return get_name(obj)":
                raise Untranslatable("LocalProxy LocalStack closure: unexpected shape: " + "; ".join(ast.unparse(b) for b in body))
            iff = body[1]
            if not (isinstance(iff, ast.If) and not iff.orelse and len(iff.body) == 1 and isinstance(iff.body[0], ast.Raise) and ast.unparse(iff.body[0].exc).startswith("RuntimeError(")):
                raise Untranslatable("LocalProxy LocalStack closure: unexpected unbound branch: " + ast.unparse(iff))
            test = ast.unparse(iff.test)
            if test == "obj is None":
                found.append("isNone")
            elif test == "not obj":
                found.append("falsy")
            else:
                raise Untranslatable(f"LocalProxy LocalStack closure: unsupported unbound test {test!r}")
    if len(found) != 1:
        raise Untranslatable(f"LocalProxy.__init__: expected one LocalStack branch, found {len(found)}")
    return found[0]


@generator("LocalOps")
def gen_localops():
    progs = translate_all()
    ptest = stack_proxy_test()
    defs = []
    for cls, meth, lean, paths in progs:
        body = ",\n  ".join("[" + ", ".join(p) + "]" for p in paths)
        defs.append(f"/-- `{cls}.{meth}` -/\ndef {lean} : Prog := [\n  {body}]\n")
    table = ",\n  ".join(f'("{cls}.{meth}", {lean})' for cls, meth, lean, _ in progs)
    body = f"""import WzVerif.Model.LocalIR
namespace Wz.Gen.LocalOps
open Wz.Local

{chr(10).join(defs)}
/-- every translated method body, by qualified name -/
def programs : List (String × Prog) := [
  {table}]

/-- the unbound test of the `LocalStack` closure in `LocalProxy.__init__` -/
def stackProxyTest : ProxyTest := .{ptest}

end Wz.Gen.LocalOps
"""
    return write("LocalOps", body, "src/werkzeug/local.py")
