"""C18: translate the bodies of the copy-on-write methods of werkzeug.local into primitive heap effects.

The translator accepts only the tiny statement subset these methods use and fails loudly on anything
else (a failed extraction is a broken proof obligation for the check).
"""
import ast
import os

from extract_lib import REPO, generator, lean_str, write

STORAGE_ATTRS = {"__storage", "_storage", "_Local__storage"}

METHODS = [
    # (class, method, lean name, argument that plays `name`/`value`/`obj`)
    ("Local", "__setattr__", "localSetattr"),
    ("Local", "__delattr__", "localDelattr"),
    ("Local", "__getattr__", "localGetattr"),
    ("Local", "__iter__", "localIter"),
    ("Local", "__release_local__", "localRelease"),
    ("LocalStack", "push", "stackPush"),
    ("LocalStack", "pop", "stackPop"),
    ("LocalStack", "top", "stackTop"),
    ("LocalStack", "__release_local__", "stackRelease"),
]


class Untranslatable(Exception):
    pass


def is_storage(n):
    return isinstance(n, ast.Attribute) and isinstance(n.value, ast.Name) and n.value.id == "self" and n.attr in STORAGE_ATTRS


def empty_literal(n):
    """False for {}, True for [], None otherwise"""
    if isinstance(n, ast.Dict) and not n.keys:
        return False
    if isinstance(n, ast.List) and not n.elts:
        return True
    return None


def is_minus_one(n):
    return (isinstance(n, ast.UnaryOp) and isinstance(n.op, ast.USub) and isinstance(n.operand, ast.Constant) and n.operand.value == 1) or (
        isinstance(n, ast.Constant) and n.value == -1
    )


def storage_get(n):
    """`self.<storage>.get(<empty literal>)` -> isList, else None"""
    if isinstance(n, ast.Call) and isinstance(n.func, ast.Attribute) and n.func.attr == "get" and is_storage(n.func.value) and len(n.args) == 1 and not n.keywords:
        return empty_literal(n.args[0])
    return None


class Tr:
    def __init__(self, where):
        self.where = where
        self.regs = {}
        self.acc_var = None

    def reg(self, name):
        if name not in self.regs:
            self.regs[name] = len(self.regs)
        return self.regs[name]

    def tmp(self):
        return self.reg(f"<tmp{len(self.regs)}>")

    def known(self, name):
        if name not in self.regs:
            raise Untranslatable(f"{self.where}: use of unknown object variable {name!r}")
        return self.regs[name]

    def bad(self, node):
        raise Untranslatable(f"{self.where}: line {getattr(node, 'lineno', '?')}: unsupported statement/expression: {ast.unparse(node)}")

    def obj_expr(self, e, dst_name=None):
        """ops that leave the object denoted by `e` in a register; returns (ops, reg)"""
        k = storage_get(e)
        if k is not None:
            r = self.reg(dst_name) if dst_name else self.tmp()
            return [f".load {r} {lb(k)}"], r
        if isinstance(e, ast.Call) and isinstance(e.func, ast.Attribute) and e.func.attr == "copy" and not e.args and not e.keywords:
            inner = e.func.value
            if isinstance(inner, ast.Name):
                src = self.known(inner.id)
                ops = []
            else:
                ops, src = self.obj_expr(inner)
            r = self.reg(dst_name) if dst_name else self.tmp()
            return ops + [f".copy {r} {src}"], r
        k = empty_literal(e)
        if k is not None:
            r = self.reg(dst_name) if dst_name else self.tmp()
            return [f".fresh {r} {lb(k)}"], r
        if isinstance(e, ast.Subscript) and isinstance(e.value, ast.Name) and isinstance(e.slice, ast.Slice) and e.slice.lower is None and e.slice.step is None and e.slice.upper is not None and is_minus_one(e.slice.upper):
            src = self.known(e.value.id)
            r = self.reg(dst_name) if dst_name else self.tmp()
            return [f".sliceInit {r} {src}"], r
        if isinstance(e, ast.Name) and dst_name is None:
            return [], self.known(e.id)
        self.bad(e)

    def block(self, stmts, cont):
        """translate `stmts` followed by continuation `cont` (a list of statements); returns a list of paths"""
        if not stmts:
            if cont:
                return self.block(cont[0], cont[1:])
            return [[".retNone"]]
        s, rest = stmts[0], stmts[1:]
        if isinstance(s, ast.Expr) and isinstance(s.value, ast.Constant) and isinstance(s.value.value, str):
            return self.block(rest, cont)  # docstring
        if isinstance(s, ast.Assign) and len(s.targets) == 1:
            tgt = s.targets[0]
            if isinstance(tgt, ast.Name):
                v = s.value
                if isinstance(v, ast.Subscript) and isinstance(v.value, ast.Name) and is_minus_one(v.slice):
                    if self.acc_var not in (None, tgt.id):
                        self.bad(s)
                    self.acc_var = tgt.id
                    ops = [f".peekLast {self.known(v.value.id)}"]
                else:
                    ops, _ = self.obj_expr(v, tgt.id)
                return [ops + p for p in self.block(rest, cont)]
            if isinstance(tgt, ast.Subscript) and isinstance(tgt.value, ast.Name) and isinstance(tgt.slice, ast.Name) and tgt.slice.id == "name" and isinstance(s.value, ast.Name) and s.value.id == "value":
                return [[f".setItem {self.known(tgt.value.id)}"] + p for p in self.block(rest, cont)]
            self.bad(s)
        if isinstance(s, ast.Delete) and len(s.targets) == 1:
            tgt = s.targets[0]
            if isinstance(tgt, ast.Subscript) and isinstance(tgt.value, ast.Name) and isinstance(tgt.slice, ast.Name) and tgt.slice.id == "name":
                return [[f".delItem {self.known(tgt.value.id)}"] + p for p in self.block(rest, cont)]
            self.bad(s)
        if isinstance(s, ast.Expr) and isinstance(s.value, ast.Call) and isinstance(s.value.func, ast.Attribute) and not s.value.keywords:
            c = s.value
            if c.func.attr == "append" and isinstance(c.func.value, ast.Name) and len(c.args) == 1 and isinstance(c.args[0], ast.Name) and c.args[0].id == "obj":
                return [[f".append {self.known(c.func.value.id)}"] + p for p in self.block(rest, cont)]
            if c.func.attr == "set" and is_storage(c.func.value) and len(c.args) == 1:
                ops, r = self.obj_expr(c.args[0])
                return [ops + [f".store {r}"] + p for p in self.block(rest, cont)]
            self.bad(s)
        if isinstance(s, ast.If):
            t = s.test
            if isinstance(t, ast.Compare) and len(t.ops) == 1 and isinstance(t.ops[0], ast.In) and isinstance(t.left, ast.Name) and t.left.id == "name" and isinstance(t.comparators[0], ast.Name):
                r = self.known(t.comparators[0].id)
                yes, no = f".assumeContains {r} true", f".assumeContains {r} false"
            elif (
                isinstance(t, ast.Compare)
                and len(t.ops) == 1
                and isinstance(t.ops[0], ast.Eq)
                and isinstance(t.left, ast.Call)
                and isinstance(t.left.func, ast.Name)
                and t.left.func.id == "len"
                and len(t.left.args) == 1
                and isinstance(t.left.args[0], ast.Name)
                and isinstance(t.comparators[0], ast.Constant)
                and t.comparators[0].value == 0
            ):
                r = self.known(t.left.args[0].id)
                yes, no = f".assumeEmpty {r} true", f".assumeEmpty {r} false"
            else:
                self.bad(t)
            saved = dict(self.regs)
            a = [[yes] + p for p in self.block(s.body, [rest] + cont)]
            regs_a = self.regs
            self.regs = dict(saved)
            # keep register numbering consistent across branches: continue numbering after branch a
            for k_, v_ in regs_a.items():
                self.regs.setdefault(k_, v_)
            b = [[no] + p for p in self.block(s.orelse, [rest] + cont)]
            return a + b
        if isinstance(s, ast.Return):
            v = s.value
            if v is None or (isinstance(v, ast.Constant) and v.value is None):
                return [[".retNone"]]
            if isinstance(v, ast.Name):
                if v.id == self.acc_var:
                    return [[".retAcc"]]
                return [[f".retReg {self.known(v.id)}"]]
            if isinstance(v, ast.Subscript) and isinstance(v.value, ast.Name):
                if isinstance(v.slice, ast.Name) and v.slice.id == "name":
                    return [[f".retItem {self.known(v.value.id)}"]]
                if is_minus_one(v.slice):
                    return [[f".retLast {self.known(v.value.id)}"]]
            if isinstance(v, ast.Call) and isinstance(v.func, ast.Name) and v.func.id == "iter" and len(v.args) == 1:
                it = v.args[0]
                if isinstance(it, ast.Call) and isinstance(it.func, ast.Attribute) and it.func.attr == "items" and not it.args:
                    ops, r = self.obj_expr(it.func.value)
                    return [ops + [f".retItems {r}"]]
            self.bad(s)
        if isinstance(s, ast.Raise):
            e = s.exc
            if isinstance(e, ast.Call) and isinstance(e.func, ast.Name) and e.func.id == "AttributeError" and s.cause is None:
                return [[".raiseAttr"]]
            self.bad(s)
        self.bad(s)


def lb(b):
    return "true" if b else "false"


def translate_all():
    path = os.path.join(REPO, "src", "werkzeug", "local.py")
    tree = ast.parse(open(path).read())
    classes = {n.name: n for n in tree.body if isinstance(n, ast.ClassDef)}
    out = []
    for cls, meth, lean in METHODS:
        if cls not in classes:
            raise Untranslatable(f"class {cls} not found in local.py")
        fns = [n for n in classes[cls].body if isinstance(n, ast.FunctionDef) and n.name == meth]
        if len(fns) != 1:
            raise Untranslatable(f"{cls}.{meth}: expected exactly one definition, found {len(fns)}")
        tr = Tr(f"{cls}.{meth}")
        paths = tr.block(fns[0].body, [])
        out.append((cls, meth, lean, paths))
    return out


def stack_proxy_test():
    """the unbound test of the LocalStack closure in LocalProxy.__init__: 'isNone' or 'falsy'"""
    path = os.path.join(REPO, "src", "werkzeug", "local.py")
    tree = ast.parse(open(path).read())
    cls = [n for n in tree.body if isinstance(n, ast.ClassDef) and n.name == "LocalProxy"]
    if len(cls) != 1:
        raise Untranslatable("class LocalProxy not found")
    init = [n for n in cls[0].body if isinstance(n, ast.FunctionDef) and n.name == "__init__"]
    if len(init) != 1:
        raise Untranslatable("LocalProxy.__init__ not found")
    found = []
    for node in ast.walk(init[0]):
        if isinstance(node, ast.If) and isinstance(node.test, ast.Call) and ast.unparse(node.test) == "isinstance(local, LocalStack)":
            fns = [n for n in node.body if isinstance(n, ast.FunctionDef) and n.name == "_get_current_object"]
            if len(fns) != 1:
                raise Untranslatable("LocalProxy.__init__: LocalStack branch without a single _get_current_object")
            body = [st for st in fns[0].body if not (isinstance(st, ast.Expr) and isinstance(st.value, ast.Constant))]
            if len(body) != 3 or ast.unparse(body[0]) != "obj = local.top" or ast.unparse(body[2]) != "return get_name(obj)":
                raise Untranslatable("LocalProxy LocalStack closure: unexpected shape: " + "; ".join(ast.unparse(b) for b in body))
            iff = body[1]
            if not (isinstance(iff, ast.If) and not iff.orelse and len(iff.body) == 1 and isinstance(iff.body[0], ast.Raise) and ast.unparse(iff.body[0].exc).startswith("RuntimeError(")):
                raise Untranslatable("LocalProxy LocalStack closure: unexpected unbound branch: " + ast.unparse(iff))
            test = ast.unparse(iff.test)
            if test == "obj is None":
                found.append("isNone")
            elif test == "not obj":
                found.append("falsy")
            else:
                raise Untranslatable(f"LocalProxy LocalStack closure: unsupported unbound test {test!r}")
    if len(found) != 1:
        raise Untranslatable(f"LocalProxy.__init__: expected one LocalStack branch, found {len(found)}")
    return found[0]


def _module_tree():
    path = os.path.join(REPO, "src", "werkzeug", "local.py")
    return ast.parse(open(path).read())


def context_var_binders(tree):
    """every statement anywhere in local.py that binds the name `ContextVar` (import, assignment, def,
    class, global/nonlocal declaration, augmented assignment, for/with/except target, walrus)"""
    out = []
    for node in ast.walk(tree):
        names = []
        if isinstance(node, (ast.Import, ast.ImportFrom)):
            names = [(a.asname or a.name).split(".")[0] for a in node.names]
        elif isinstance(node, (ast.FunctionDef, ast.AsyncFunctionDef, ast.ClassDef)):
            names = [node.name]
            if not isinstance(node, ast.ClassDef):
                a = node.args
                names += [x.arg for x in a.posonlyargs + a.args + a.kwonlyargs + ([a.vararg] if a.vararg else []) + ([a.kwarg] if a.kwarg else [])]
        elif isinstance(node, ast.Lambda):
            a = node.args
            names = [x.arg for x in a.posonlyargs + a.args + a.kwonlyargs + ([a.vararg] if a.vararg else []) + ([a.kwarg] if a.kwarg else [])]
        elif isinstance(node, (ast.Global, ast.Nonlocal)):
            names = list(node.names)
        elif isinstance(node, ast.Name) and isinstance(node.ctx, (ast.Store, ast.Del)):
            names = [node.id]
        elif isinstance(node, ast.ExceptHandler) and node.name:
            names = [node.name]
        if "ContextVar" in names:
            if isinstance(node, ast.ImportFrom) and node.module == "contextvars" and node.level == 0 and any(a.name == "ContextVar" and a.asname is None for a in node.names):
                out.append("from contextvars import ContextVar")
                continue
            out.append(ast.unparse(node).split("\n")[0] if not isinstance(node, ast.Name) else f"{node.id} (store, line {node.lineno})")
    return out


def _store_of(stmt):
    """the expression stored into the storage attribute by `stmt`, or None:
    `self.<storage> = e` / `object.__setattr__(self, "<storage>", e)`"""
    if isinstance(stmt, ast.Assign) and len(stmt.targets) == 1 and is_storage(stmt.targets[0]):
        return stmt.value
    if isinstance(stmt, ast.AnnAssign) and is_storage(stmt.target):
        return stmt.value
    if isinstance(stmt, ast.Expr) and isinstance(stmt.value, ast.Call):
        c = stmt.value
        if ast.unparse(c.func) == "object.__setattr__" and len(c.args) == 3 and not c.keywords and isinstance(c.args[0], ast.Name) and c.args[0].id == "self" and isinstance(c.args[1], ast.Constant) and c.args[1].value in STORAGE_ATTRS:
            return c.args[2]
    return None


def _touches_storage_binding(node):
    """does any statement under `node` (re)bind or delete the storage attribute of self?"""
    for n in ast.walk(node):
        if isinstance(n, ast.Attribute) and isinstance(n.ctx, (ast.Store, ast.Del)) and is_storage(n):
            return True
        if isinstance(n, ast.Call) and ast.unparse(n.func) in ("object.__setattr__", "object.__delattr__", "setattr", "delattr") and len(n.args) >= 2 and isinstance(n.args[1], ast.Constant) and n.args[1].value in STORAGE_ATTRS:
            return True
    return False


def ctor_kind(cls_node, binders):
    """the shape of `__init__`:  [docstring]  if context_var is None: context_var = <expr>
                                 <store context_var into the storage attribute>
    -> ('direct' | 'indirect', fn)"""
    where = f"{cls_node.name}.__init__"
    fns = [n for n in cls_node.body if isinstance(n, ast.FunctionDef) and n.name == "__init__"]
    if len(fns) != 1:
        raise Untranslatable(f"{where}: expected exactly one definition, found {len(fns)}")
    fn = fns[0]
    if fn.decorator_list:
        raise Untranslatable(f"{where}: decorated")
    params = [a.arg for a in fn.args.args]
    if params != ["self", "context_var"] or fn.args.vararg or fn.args.kwarg or fn.args.kwonlyargs or fn.args.posonlyargs:
        raise Untranslatable(f"{where}: unexpected parameters {ast.unparse(fn.args)}")
    body = [s for s in fn.body if not (isinstance(s, ast.Expr) and isinstance(s.value, ast.Constant) and isinstance(s.value.value, str))]
    if len(body) != 2:
        raise Untranslatable(f"{where}: expected `if context_var is None: ...` followed by one store, found {len(body)} statements")
    iff, store = body
    if not (isinstance(iff, ast.If) and ast.unparse(iff.test) == "context_var is None" and not iff.orelse and len(iff.body) == 1):
        raise Untranslatable(f"{where}: unexpected first statement: {ast.unparse(iff).splitlines()[0]}")
    asg = iff.body[0]
    if not (isinstance(asg, ast.Assign) and len(asg.targets) == 1 and isinstance(asg.targets[0], ast.Name) and asg.targets[0].id == "context_var"):
        raise Untranslatable(f"{where}: unexpected default branch: {ast.unparse(asg)}")
    stored = _store_of(store)
    if not (isinstance(stored, ast.Name) and stored.id == "context_var"):
        raise Untranslatable(f"{where}: the storage attribute is not bound to `context_var`: {ast.unparse(store)}")
    e = asg.value
    if not isinstance(e, ast.Call):
        return "indirect", ast.unparse(e)
    if isinstance(e.func, ast.Name) and e.func.id == "ContextVar" and binders == ["from contextvars import ContextVar"]:
        # a plain constructor call of contextvars.ContextVar: (name) or (name, default=...) - a default
        # would make every context *bound* from the start
        if len(e.args) == 1 and not e.keywords:
            return "direct", ""
        return "indirect", ast.unparse(e)
    return "indirect", ast.unparse(e.func)


def ctor_facts():
    tree = _module_tree()
    binders = context_var_binders(tree)
    classes = {n.name: n for n in tree.body if isinstance(n, ast.ClassDef)}
    kinds = {}
    rebinds = []
    for cls in ("Local", "LocalStack"):
        if cls not in classes:
            raise Untranslatable(f"class {cls} not found in local.py")
        kinds[cls] = ctor_kind(classes[cls], binders)
        for n in classes[cls].body:
            if isinstance(n, (ast.FunctionDef, ast.AsyncFunctionDef)) and n.name != "__init__" and _touches_storage_binding(n):
                rebinds.append(f"{cls}.{n.name}")
    # nothing outside the two classes reaches into their storage attribute either
    for n in tree.body:
        if not (isinstance(n, ast.ClassDef) and n.name in ("Local", "LocalStack")) and _touches_storage_binding(n):
            rebinds.append(getattr(n, "name", f"<module statement line {n.lineno}>"))
    return binders, kinds, rebinds


def lean_ctor(k):
    return ".direct" if k[0] == "direct" else f".indirect {lean_str(k[1])}"


@generator("LocalOps")
def gen_localops():
    progs = translate_all()
    ptest = stack_proxy_test()
    binders, kinds, rebinds = ctor_facts()
    defs = []
    for cls, meth, lean, paths in progs:
        body = ",\n  ".join("[" + ", ".join(p) + "]" for p in paths)
        defs.append(f"/-- `{cls}.{meth}` -/\ndef {lean} : Prog := [\n  {body}]\n")
    table = ",\n  ".join(f'("{cls}.{meth}", {lean})' for cls, meth, lean, _ in progs)
    body = f"""import WzVerif.Model.LocalIR
namespace Wz.Gen.LocalOps
open Wz.Local

{chr(10).join(defs)}
/-- every translated method body, by qualified name -/
def programs : List (String × Prog) := [
  {table}]

/-- the unbound test of the `LocalStack` closure in `LocalProxy.__init__` -/
def stackProxyTest : ProxyTest := .{ptest}

/-- how `Local.__init__` obtains its `ContextVar` when none is passed -/
def localCtor : CtorKind := {lean_ctor(kinds["Local"])}

/-- how `LocalStack.__init__` obtains its `ContextVar` when none is passed -/
def stackCtor : CtorKind := {lean_ctor(kinds["LocalStack"])}

def constructors : List (String × CtorKind) := [
  ("Local.__init__", localCtor),
  ("LocalStack.__init__", stackCtor)]

/-- every statement of local.py that binds the name `ContextVar` -/
def contextVarBinders : List String := [{", ".join(lean_str(b) for b in binders)}]

/-- functions other than the two constructors that (re)bind or delete a storage attribute -/
def storageRebinds : List String := [{", ".join(lean_str(b) for b in rebinds)}]

end Wz.Gen.LocalOps
"""
    return write("LocalOps", body, "src/werkzeug/local.py")


# ---------------------------------------------------------------------------
# LocalProxy: the forwarding table and the code every forwarded operation goes through


def _strip(fn):
    """a function definition without docstrings, annotations and comments, as normalised source"""
    fn = ast.parse(ast.unparse(fn)).body[0]
    for n in ast.walk(fn):
        if isinstance(n, (ast.FunctionDef, ast.AsyncFunctionDef)):
            n.returns = None
            a = n.args
            for x in a.posonlyargs + a.args + a.kwonlyargs + ([a.vararg] if a.vararg else []) + ([a.kwarg] if a.kwarg else []):
                x.annotation = None
            n.body = [st for st in n.body if not (isinstance(st, ast.Expr) and isinstance(st.value, ast.Constant) and isinstance(st.value.value, str))] or [ast.Pass()]
        if isinstance(n, ast.AnnAssign) and n.value is None:
            pass
    src = ast.unparse(fn)
    import re as _re

    return _re.sub(r"\s*#\s*type:\s*ignore\S*", "", src)


def _method(tree, cls, name):
    cs = [n for n in tree.body if isinstance(n, ast.ClassDef) and n.name == cls]
    if len(cs) != 1:
        raise Untranslatable(f"class {cls} not found")
    fs = [n for n in cs[0].body if isinstance(n, ast.FunctionDef) and n.name == name]
    if len(fs) != 1:
        raise Untranslatable(f"{cls}.{name}: expected exactly one definition, found {len(fs)}")
    return fs[0]


def proxy_closures(tree):
    """the `_get_current_object` closure of every `isinstance` branch of LocalProxy.__init__, in
    source order: (branch test, normalised body)"""
    init = _method(tree, "LocalProxy", "__init__")
    top_if = [st for st in init.body if isinstance(st, ast.If) and ast.unparse(st.test).startswith("isinstance(local")]
    if len(top_if) != 1:
        raise Untranslatable("LocalProxy.__init__: expected one isinstance(local, ...) chain")
    out = []
    node = top_if[0]
    while True:
        fns = [n for n in node.body if isinstance(n, ast.FunctionDef)]
        if len(fns) != 1 or fns[0].name != "_get_current_object":
            raise Untranslatable("LocalProxy.__init__: a branch without exactly one _get_current_object closure: " + ast.unparse(node.test))
        out.append((ast.unparse(node.test), "; ".join(ln.strip() for ln in _strip(fns[0]).splitlines()[1:])))
        if len(node.orelse) == 1 and isinstance(node.orelse[0], ast.If):
            node = node.orelse[0]
            continue
        tail = "; ".join(ast.unparse(st) for st in node.orelse)
        out.append(("else", tail))
        break
    # what happens with the closure afterwards, and how `get_name` is chosen
    rest = ["; ".join(ln.strip() for ln in ast.unparse(st).splitlines()) for st in init.body if st is not top_if[0] and not (isinstance(st, ast.Expr) and isinstance(st.value, ast.Constant))]
    return out, rest


def lookup_table():
    """every `_ProxyLookup` attribute of the live `LocalProxy` class: (name, is in-place operator
    wrapper, has a function to re-do the call with, has fallback, is_attr, the fallback evaluated on
    an unbound proxy (canonical text))"""
    import importlib

    L = importlib.import_module("werkzeug.local")
    probe_local = L.Local()
    p = L.LocalProxy(probe_local, "nothing")
    rows = []
    for name, v in vars(L.LocalProxy).items():
        if not isinstance(v, L._ProxyLookup):
            continue
        fb = ""
        if v.fallback is not None:
            val = v.fallback.__get__(p, L.LocalProxy)()
            if val is False:
                fb = "False"
            elif val is L.LocalProxy:
                fb = "LocalProxy"
            elif val is probe_local:
                fb = "<the wrapped local>"
            elif isinstance(val, str) and val == L.LocalProxy.__dict__["__doc__"].class_value:
                fb = "<the class docstring>"
            elif isinstance(val, (str, list)):
                fb = repr(val)
            else:
                fb = f"<unexpected {type(val).__name__}>"
        rows.append((name, type(v) is L._ProxyIOp, v.bind_f is not None, v.fallback is not None, bool(v.is_attr), fb))
        if type(v) not in (L._ProxyLookup, L._ProxyIOp):
            raise Untranslatable(f"LocalProxy.{name}: unknown descriptor class {type(v).__name__}")
    return rows


def manager_facts(tree):
    """release_local / LocalManager.cleanup / make_middleware, normalised"""
    rl = [n for n in tree.body if isinstance(n, ast.FunctionDef) and n.name == "release_local"]
    if len(rl) != 1:
        raise Untranslatable("release_local not found")
    one = lambda fn: "; ".join(ln.strip() for ln in _strip(fn).splitlines()[1:])  # noqa: E731
    return [
        ("release_local", one(rl[0])),
        ("LocalManager.__init__", one(_method(tree, "LocalManager", "__init__"))),
        ("LocalManager.cleanup", one(_method(tree, "LocalManager", "cleanup"))),
        ("LocalManager.make_middleware", one(_method(tree, "LocalManager", "make_middleware"))),
    ]


def manager_forms():
    """the live `LocalManager` constructor on every argument form: which of the objects passed end up in
    `.locals` (evaluated inside a scratch context; `L1` holds a value there, `L0` and `S` hold nothing)"""
    import contextvars
    import importlib

    L = importlib.import_module("werkzeug.local")

    def run():
        l0, l1, st = L.Local(), L.Local(), L.LocalStack()
        l1.x = 1
        names = {id(l0): "L0", id(l1): "L1", id(st): "S"}
        forms = [
            ("LocalManager()", lambda: L.LocalManager()),
            ("LocalManager(None)", lambda: L.LocalManager(None)),
            ("LocalManager(<Local, empty here>)", lambda: L.LocalManager(l0)),
            ("LocalManager(<Local, bound here>)", lambda: L.LocalManager(l1)),
            ("LocalManager(<LocalStack>)", lambda: L.LocalManager(st)),
            ("LocalManager([L0, S])", lambda: L.LocalManager([l0, st])),
            ("LocalManager((L1, S, L0))", lambda: L.LocalManager((l1, st, l0))),
            ("LocalManager(iter([S, L1]))", lambda: L.LocalManager(iter([st, l1]))),
            ("LocalManager([])", lambda: L.LocalManager([])),
            ("LocalManager([L1]) then .locals.append(S)", lambda: _appended(L.LocalManager([l1]), st)),
        ]
        out = []
        for label, mk in forms:
            try:
                m = mk()
                out.append((label, ",".join(names.get(id(x), f"<{type(x).__name__}>") for x in m.locals) or "-"))
            except Exception as e:  # noqa: BLE001 - the class is the table entry
                out.append((label, "error:" + type(e).__name__))
        return out

    def _appended(m, x):
        m.locals.append(x)
        return m

    return contextvars.Context().run(run)


@generator("LocalProxyTbl")
def gen_localproxy():
    forms = manager_forms()
    fm = ",\n  ".join(f"({lean_str(a)}, {lean_str(b)})" for a, b in forms)
    tree = _module_tree()
    rows = lookup_table()
    closures, rest = proxy_closures(tree)
    get_src = "; ".join(ln.strip() for ln in _strip(_method(tree, "_ProxyLookup", "__get__")).splitlines()[1:])
    iop_src = "; ".join(ln.strip() for ln in _strip(_method(tree, "_ProxyIOp", "__init__")).splitlines()[1:])
    mgr = manager_facts(tree)
    tb = ",\n  ".join(
        f"{{ name := {lean_str(n)}, iop := {lb(i)}, hasF := {lb(f)}, hasFallback := {lb(fb)}, isAttr := {lb(a)}, fallback := {lean_str(v)} }}"
        for n, i, f, fb, a, v in rows
    )
    cl = ",\n  ".join(f"({lean_str(t)}, {lean_str(b)})" for t, b in closures)
    rs = ",\n  ".join(lean_str(r) for r in rest)
    mg = ",\n  ".join(f"({lean_str(n)}, {lean_str(b)})" for n, b in mgr)
    body = f"""import WzVerif.Model.LocalIR
namespace Wz.Gen.LocalProxyTbl
open Wz.Local

/-- every `_ProxyLookup` / `_ProxyIOp` attribute of the live `LocalProxy` class, in definition order;
`fallback` is the fallback evaluated on an unbound proxy -/
def table : List LookupEntry := [
  {tb}]

/-- `_ProxyLookup.__get__` (docstrings, annotations, comments removed) -/
def lookupGetSrc : String := {lean_str(get_src)}

/-- `_ProxyIOp.__init__` -/
def iopInitSrc : String := {lean_str(iop_src)}

/-- the `_get_current_object` closure of every branch of `LocalProxy.__init__` -/
def closures : List (String × String) := [
  {cl}]

/-- the other statements of `LocalProxy.__init__` -/
def initRest : List String := [
  {rs}]

/-- `release_local`, `LocalManager.__init__/cleanup/make_middleware` -/
def manager : List (String × String) := [
  {mg}]

/-- the live `LocalManager` constructor on every argument form: the objects that end up in `.locals`
(`L0`: a `Local` that is empty in the constructing context, `L1`: a `Local` that holds a value there,
`S`: a `LocalStack`) -/
def managerForms : List (String × String) := [
  {fm}]

end Wz.Gen.LocalProxyTbl
"""
    return write("LocalProxyTbl", body, "src/werkzeug/local.py")
