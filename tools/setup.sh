#!/bin/bash
# Build everything from files on disk (offline). Best effort: a property whose Lean files do not
# build is reported by its own check (which rebuilds what it needs); setup itself only fails when
# the toolchain is unusable.
cd "$(dirname "$0")/.." || exit 1
/venv/bin/python tools/extract.py || echo "setup: extract.py reported a problem (the affected check will report it)"
cd lean || exit 1
lake --version || exit 1
flock .lake.lock lake build 2>&1 | grep -vE "^✔|^ℹ" | tail -40
echo "setup: done"
exit 0
