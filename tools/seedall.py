#!/usr/bin/env python3
"""Run every seeded change against its property's check (scratch worktree + WZ_REPO) and write
seeded/<id>/meta.json + seeded/RESULTS.md.  usage: tools/seedall.py [Cxx ...] [--no-suite]"""
import fnmatch, json, os, re, subprocess, sys
os.chdir('/verif')
args = [a for a in sys.argv[1:] if not a.startswith('--')]
nosuite = '--no-suite' in sys.argv
rows = []
for d in sorted(os.listdir('seeded')):
    p = os.path.join('seeded', d)
    if not os.path.isdir(p) or not os.path.exists(os.path.join(p, 'patch.diff')):
        continue
    prop = d.split('-')[0]
    if args and prop not in args and not any(fnmatch.fnmatch(d, a) for a in args):
        continue
    if not os.path.exists(f'harness/{prop.lower()}.py'):
        rows.append((d, 'no check yet', '', '')); continue
    cmd = ['tools/seedrun.sh', prop, p] + (['--no-suite'] if nosuite else [])
    out = subprocess.run(cmd, stdout=subprocess.PIPE, stderr=subprocess.STDOUT, timeout=3600).stdout.decode(errors='replace')
    g = lambda pat: (re.search(pat, out) or [None, '?'])[1]
    clean, changed, rc = g(r'demo_clean_rc=(\d+)'), g(r'demo_changed_rc=(\d+)'), g(r'check_rc=(\d+)')
    suite = g(r'(\d+ passed[^\n]*)') if not nosuite else 'skipped'
    viol = [l for l in out.split('\n') if 'VIOLATION' in l]
    how = [l.strip()[:300] for l in out.split('\n') if 'BROKEN' in l or 'violation in' in l or 'first disagreement' in l or 'no longer shown' in l][:4]
    confirmed = clean == '0' and changed == '1' and (nosuite or 'passed' in suite and 'failed' not in suite)
    verdict = 'CAUGHT' if rc == '1' and viol else ('MISSED' if rc == '0' else f'rc={rc}')
    note = open(os.path.join(p, 'note.md')).read() if os.path.exists(os.path.join(p, 'note.md')) else ''
    meta = {'property': prop, 'what_it_breaks_and_needs': note[:2500], 'confirmed_by_coordinator': confirmed,
            'demo_rc_clean_tree': clean, 'demo_rc_changed_tree': changed, 'full_suite_on_changed_tree': suite,
            'check_verdict': verdict, 'check_output': viol[:1] + how,
            'ran': [f'tools/seedrun.sh {prop} seeded/{d}' + (' --no-suite' if nosuite else '')]}
    old = {}
    mp = os.path.join(p, 'meta.json')
    if os.path.exists(mp):
        old = json.load(open(mp))
        if nosuite and 'full_suite_on_changed_tree' in old and old['full_suite_on_changed_tree'] != 'skipped':
            meta['full_suite_on_changed_tree'] = old['full_suite_on_changed_tree']
            meta['confirmed_by_coordinator'] = clean == '0' and changed == '1' and 'passed' in old['full_suite_on_changed_tree']
    json.dump(meta, open(mp, 'w'), indent=1)
    rows.append((d, 'confirmed' if meta['confirmed_by_coordinator'] else 'NOT-CONFIRMED', verdict, '; '.join(how)[:200]))
    print(rows[-1], flush=True)
with open('seeded/RESULTS.partial.md' if args else 'seeded/RESULTS.md', 'w') as f:
    f.write('| seeded change | status | check verdict | how |\n|---|---|---|---|\n')
    for r in rows:
        f.write('| ' + ' | '.join(r) + ' |\n')
# leave the generated Lean files in the state of the unchanged tree
# (checks run in a private copy of /verif: nothing to restore here)
