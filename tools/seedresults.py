#!/usr/bin/env python3
"""regenerate seeded/RESULTS.md from the meta.json files written by tools/seedall.py"""
import json, os, collections
os.chdir(os.path.dirname(os.path.dirname(os.path.abspath(__file__))))
rows, c = [], collections.Counter()
for d in sorted(os.listdir('seeded')):
    mp = os.path.join('seeded', d, 'meta.json')
    if not os.path.exists(mp):
        continue
    m = json.load(open(mp))
    v = m.get('check_verdict', '?')
    c[v] += 1
    how = '; '.join(x for x in m.get('check_output', [])[1:3])[:220].replace('|', '/')
    rows.append(f"| {d} | {'confirmed' if m.get('confirmed_by_coordinator') else 'NOT-CONFIRMED'} | {v} | {how} |")
with open('seeded/RESULTS.md', 'w') as f:
    f.write('Verdicts of the last run of each stored change against the committed checks (tools/seedall.py, SEED_FROM_HEAD=1).\n\n')
    f.write('Totals: ' + ', '.join(f'{k}: {n}' for k, n in sorted(c.items())) + f' (of {len(rows)})\n\n')
    f.write('| seeded change | status | check verdict | how |\n|---|---|---|---|\n' + '\n'.join(rows) + '\n')
print(dict(c), len(rows))
