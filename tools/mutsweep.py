#!/venv/bin/python
"""Mutation sweep: how well do the checks detect small semantic edits of the anchored code?

usage: tools/mutsweep.py [--props C01,C05] [--per-prop 40] [--workers 6] [--seed 0] [--out DIR]

For every property the functions named in its `anchors` (properties.jsonl) are mutated, one edit per
mutant, by splicing text into the original source (no re-formatting, so source pins and AST facts see
exactly one change): comparison flips, and/or swaps, dropped `not`, small integer constants +-1,
True/False swaps, +/- swaps, dropped expression statements / augmented assignments / break / continue.
Each mutant is applied in a scratch git worktree of /repo (outside /repo and /verif), the property's
quick check runs against it (WZ_REPO) in a private export of the committed /verif, and for mutants the
check does NOT report, the full test suite runs: a mutant that also passes the suite is a *survivor* - a
candidate detection gap to triage (equivalent mutant, behaviour outside the property, or a real gap).
Results: <out>/<prop>.jsonl (one line per mutant) and <out>/SUMMARY.md. This is a self-test of the
machinery, not part of any check; nothing here is evidence for a property.
"""
import argparse
import ast
import json
import multiprocessing as mp
import os
import random
import re
import shutil
import subprocess
import sys
import time

VERIF = os.path.dirname(os.path.dirname(os.path.abspath(__file__)))
REPO = "/repo"
ROOT = "/var/tmp/mut"

CMP = {ast.Lt: "<=", ast.LtE: "<", ast.Gt: ">=", ast.GtE: ">", ast.Eq: "!=", ast.NotEq: "==",
       ast.Is: "is not", ast.IsNot: "is", ast.In: "not in", ast.NotIn: "in"}
CMP_TXT = {ast.Lt: "<", ast.LtE: "<=", ast.Gt: ">", ast.GtE: ">=", ast.Eq: "==", ast.NotEq: "!=",
           ast.Is: "is", ast.IsNot: "is not", ast.In: "in", ast.NotIn: "not in"}


def anchors(prop):
    for l in open(os.path.join(VERIF, "properties.jsonl")):
        p = json.loads(l)
        if p["id"] == prop:
            # a function is anchored when its name is the LAST component of a dotted token of some
            # `where` text (Class.method, module.func, func); a class is anchored as a whole only
            # when the class name itself is such a last component (e.g. "structures.MultiDict")
            words = set()
            for m in p["anchors"]["mechanism"]:
                for w in re.findall(r"[A-Za-z_][A-Za-z0-9_.]*", m["where"]):
                    words.add(w.rstrip(".").split(".")[-1])
            return p["anchors"]["files"], words
    raise SystemExit("unknown property " + prop)


def offsets(src):
    lines = src.split("\n")
    starts = [0]
    for ln in lines:
        starts.append(starts[-1] + len(ln) + 1)
    return starts


def pos(starts, lines_bytes, lineno, col):
    # ast columns are utf-8 byte offsets
    line = lines_bytes[lineno - 1]
    return starts[lineno - 1] + len(line[:col].decode("utf-8", "replace"))


def functions(tree, words):
    """(qualname, node) of functions the anchors mention: by method name, Class.method, or every
    method of a mentioned class; nested defs belong to their parent."""
    out = []

    def visit(node, prefix, cls_hit):
        for ch in ast.iter_child_nodes(node):
            if isinstance(ch, ast.ClassDef):
                visit(ch, prefix + ch.name + ".", ch.name in words)
            elif isinstance(ch, (ast.FunctionDef, ast.AsyncFunctionDef)):
                q = prefix + ch.name
                if cls_hit or ch.name in words:
                    out.append((q, ch))

    visit(tree, "", False)
    return out


def mutants_of(path, rel, words):
    src = open(path).read()
    tree = ast.parse(src)
    starts = offsets(src)
    lb = [l.encode("utf-8") for l in src.split("\n")]
    P = lambda n, end=False: pos(starts, lb, n.end_lineno if end else n.lineno, n.end_col_offset if end else n.col_offset)
    res = []

    def add(kind, a, b, new, fn, node):
        old = src[a:b]
        if old == new:
            return
        res.append({"file": rel, "function": fn, "line": node.lineno, "kind": kind, "old": old[:120], "new": new[:120], "a": a, "b": b, "text": new})

    for q, fn in functions(tree, words):
        doc = ast.get_docstring(fn, clean=False)
        for node in ast.walk(fn):
            if isinstance(node, ast.Compare) and len(node.ops) == 1:
                l, r = node.left, node.comparators[0]
                a, b = P(l, True), P(r)
                mid = src[a:b]
                t = CMP_TXT[type(node.ops[0])]
                if mid.strip() == t:
                    add("cmp", a, b, mid.replace(t, CMP[type(node.ops[0])]), q, node)
            elif isinstance(node, ast.BoolOp):
                t = "and" if isinstance(node.op, ast.And) else "or"
                n = "or" if t == "and" else "and"
                for x, y in zip(node.values, node.values[1:]):
                    a, b = P(x, True), P(y)
                    mid = src[a:b]
                    if re.fullmatch(r"[\s)(]*\b%s\b[\s)(]*" % t, mid) and mid.count("(") == mid.count(")") == 0:
                        add("boolop", a, b, mid.replace(t, n), q, node)
            elif isinstance(node, ast.UnaryOp) and isinstance(node.op, ast.Not):
                a, b = P(node), P(node, True)
                inner = src[P(node.operand):P(node.operand, True)]
                if src[a:b].startswith("not "):
                    add("dropnot", a, b, "(" + inner + ")", q, node)
            elif isinstance(node, ast.Constant) and not isinstance(node.value, bool) and isinstance(node.value, int) and 0 <= node.value <= 1000:
                a, b = P(node), P(node, True)
                if src[a:b] == str(node.value):
                    add("int+1", a, b, str(node.value + 1), q, node)
                    if node.value > 0:
                        add("int-1", a, b, str(node.value - 1), q, node)
            elif isinstance(node, ast.Constant) and isinstance(node.value, bool):
                a, b = P(node), P(node, True)
                if src[a:b] in ("True", "False"):
                    add("bool", a, b, "False" if node.value else "True", q, node)
            elif isinstance(node, ast.BinOp) and isinstance(node.op, (ast.Add, ast.Sub)):
                a, b = P(node.left, True), P(node.right)
                mid = src[a:b]
                t = "+" if isinstance(node.op, ast.Add) else "-"
                if mid.strip() == t:
                    add("arith", a, b, mid.replace(t, "-" if t == "+" else "+"), q, node)
            elif isinstance(node, (ast.Expr, ast.AugAssign, ast.Break, ast.Continue)):
                if isinstance(node, ast.Expr) and isinstance(node.value, ast.Constant):
                    continue  # docstring / bare constant
                a, b = P(node), P(node, True)
                if "\n" not in src[a:b]:
                    add("dropstmt", a, b, "pass", q, node)
            elif isinstance(node, ast.If):
                a, b = P(node.test), P(node.test, True)
                if "\n" not in src[a:b]:
                    add("negif", a, b, "not (" + src[a:b] + ")", q, node)
    return src, res


def sh(cmd, cwd=None, env=None, timeout=1800):
    try:
        p = subprocess.run(cmd, cwd=cwd, env=env, stdout=subprocess.PIPE, stderr=subprocess.STDOUT, timeout=timeout)
        return p.returncode, p.stdout.decode(errors="replace")
    except subprocess.TimeoutExpired:
        return 124, "timeout"


def setup_worker(w):
    wt = f"{ROOT}/wt{w}"
    vf = f"{ROOT}/verif{w}"
    if not os.path.isdir(wt):
        sh(["git", "-C", REPO, "worktree", "add", "-q", "--detach", wt, "HEAD"])
    else:
        sh(["git", "-C", wt, "checkout", "-q", "--detach", subprocess.check_output(["git", "-C", REPO, "rev-parse", "HEAD"]).decode().strip()])
        sh(["git", "-C", wt, "checkout", "--", "."])
    exp = f"{ROOT}/export{w}"
    shutil.rmtree(exp, ignore_errors=True)
    os.makedirs(exp)
    subprocess.run(f"git -C {VERIF} archive HEAD | tar -x -C {exp}", shell=True, check=True)
    os.makedirs(vf + "/lean", exist_ok=True)
    if not os.path.isdir(vf + "/lean/.lake"):
        subprocess.run(f"flock {VERIF}/lean/.lake.lock cp -a {VERIF}/lean/.lake {vf}/lean/", shell=True, check=True)
    subprocess.run(["rsync", "-a", "--delete", "--exclude", "lean/.lake", "--exclude", "replays", "--exclude", "seeded", exp + "/", vf + "/"], check=True)
    shutil.rmtree(exp, ignore_errors=True)
    return wt, vf


def run_one(args):
    w, prop, m, src_path_rel = args
    wt, vf = f"{ROOT}/wt{w}", f"{ROOT}/verif{w}"
    target = os.path.join(wt, m["file"])
    orig = open(os.path.join(REPO, m["file"])).read()
    mutated = orig[: m["a"]] + m["text"] + orig[m["b"] :]
    res = {k: m[k] for k in ("file", "function", "line", "kind", "old", "new")}
    res["property"] = prop
    try:
        ast.parse(mutated)
    except SyntaxError:
        res["verdict"] = "invalid"
        return res
    open(target, "w").write(mutated)
    try:
        env = dict(os.environ, PYTHONPATH=wt + "/src")
        rc, out = sh(["/venv/bin/python", "-c", "import werkzeug, werkzeug.serving, werkzeug.debug, werkzeug.test, werkzeug.routing, werkzeug.middleware.shared_data"], env=env, timeout=60)
        if rc != 0:
            res["verdict"] = "import-fails"
            return res
        t0 = time.time()
        env2 = dict(os.environ, WZ_REPO=wt, VERIF_SEED="0")
        rc, out = sh([vf + "/check", prop, "--tier", "quick"], cwd=vf, env=env2, timeout=1500)
        res["check_rc"], res["check_s"] = rc, round(time.time() - t0, 1)
        how = [l.strip()[:200] for l in out.split("\n") if "BROKEN" in l or "violation in" in l or "first disagreement" in l or "no longer shown" in l][:3]
        res["how"] = how
        res["no_failing_input"] = "no-failing-input-found" in out
        if rc == 1:
            res["verdict"] = "caught"
            return res
        if rc != 0:
            res["verdict"] = f"check-rc{rc}"
            res["tail"] = out[-600:]
            return res
        rc, out = sh(["/venv/bin/python", "-m", "pytest", "-q", "-x", "-p", "no:cacheprovider", "-n", "4", "--timeout=300"], cwd=wt, env=env, timeout=1200)
        last = out.strip().split("\n")[-1] if out.strip() else ""
        res["suite"] = last[:120]
        res["verdict"] = "SURVIVOR" if rc == 0 else "killed-by-suite"
        return res
    finally:
        open(target, "w").write(orig)


def worker(w, q_in, q_out):
    setup_worker(w)
    while True:
        item = q_in.get()
        if item is None:
            break
        prop, m, rel = item
        try:
            r = run_one((w, prop, m, rel))
        except Exception as e:  # noqa: BLE001
            r = {"property": prop, "verdict": "error", "error": repr(e)[:300], **{k: m[k] for k in ("file", "function", "line", "kind", "old", "new")}}
        q_out.put(r)


def main():
    ap = argparse.ArgumentParser()
    ap.add_argument("--props", default=",".join(f"C{i:02d}" for i in range(1, 21)))
    ap.add_argument("--per-prop", type=int, default=40)
    ap.add_argument("--workers", type=int, default=6)
    ap.add_argument("--seed", type=int, default=0)
    ap.add_argument("--out", default=f"{ROOT}/results")
    a = ap.parse_args()
    os.makedirs(a.out, exist_ok=True)
    os.makedirs(ROOT, exist_ok=True)
    jobs = []
    for prop in a.props.split(","):
        files, words = anchors(prop)
        allm = []
        for rel in files:
            path = os.path.join(REPO, rel)
            if not os.path.exists(path):
                continue
            _, ms = mutants_of(path, rel, words)
            allm += ms
        rng = random.Random(f"{a.seed}:{prop}")
        rng.shuffle(allm)
        # spread over functions: at most 4 mutants per function first
        per_fn, picked = {}, []
        for m in allm:
            k = (m["file"], m["function"])
            if per_fn.get(k, 0) < 4:
                per_fn[k] = per_fn.get(k, 0) + 1
                picked.append(m)
        rest = [m for m in allm if m not in picked]
        picked = (picked + rest)[: a.per_prop]
        print(f"{prop}: {len(allm)} mutants available in {len(per_fn)} anchored functions, running {len(picked)}", flush=True)
        jobs += [(prop, m, m["file"]) for m in picked]
    q_in, q_out = mp.Queue(), mp.Queue()
    procs = [mp.Process(target=worker, args=(w, q_in, q_out)) for w in range(a.workers)]
    for p in procs:
        p.start()
    # interleave properties so that per-worker lake rebuilds stay small
    for j in jobs:
        q_in.put(j)
    for _ in procs:
        q_in.put(None)
    done = 0
    files = {}
    summary = {}
    while done < len(jobs):
        r = q_out.get()
        done += 1
        prop = r["property"]
        f = files.setdefault(prop, open(os.path.join(a.out, prop + ".jsonl"), "a"))
        f.write(json.dumps(r) + "\n")
        f.flush()
        s = summary.setdefault(prop, {})
        s[r["verdict"]] = s.get(r["verdict"], 0) + 1
        print(f"[{done}/{len(jobs)}] {prop} {r['verdict']:16s} {r['file']}:{r['line']} {r['function']} {r['kind']}: {r['old']!r} -> {r['new']!r}", flush=True)
    for p in procs:
        p.join()
    with open(os.path.join(a.out, "SUMMARY.md"), "a") as f:
        f.write(f"\n## sweep seed={a.seed} per-prop={a.per_prop} verif={subprocess.check_output(['git','-C',VERIF,'rev-parse','--short','HEAD']).decode().strip()} repo={subprocess.check_output(['git','-C',REPO,'rev-parse','--short','HEAD']).decode().strip()}\n\n| prop | " + " | ".join(["caught", "SURVIVOR", "killed-by-suite", "other"]) + " |\n|---|---|---|---|---|\n")
        for prop in sorted(summary):
            s = summary[prop]
            other = sum(v for k, v in s.items() if k not in ("caught", "SURVIVOR", "killed-by-suite"))
            f.write(f"| {prop} | {s.get('caught',0)} | {s.get('SURVIVOR',0)} | {s.get('killed-by-suite',0)} | {other} |\n")
    print(open(os.path.join(a.out, "SUMMARY.md")).read())


if __name__ == "__main__":
    main()
